/* contract for decode_packed_entry_number (lib/codebook.c) - C02, C05, C01 */
#ifndef VERIF_CODEBOOK_DECODE_SPEC_H
#define VERIF_CODEBOOK_DECODE_SPEC_H
#include "common.h"
#include "vorbis/codec.h"
#include "codec_internal.h"
#include "codebook.h"
#define RW(p, n) __CPROVER_rw_ok((p), (n))
int nondet_int(void); long nondet_long(void);

/* ---- ghost: what the (assumed) bit reader was asked ------------------------ */
long g_lok;          /* ghost first-table index the first look may return */
int g_looks;         /* number of looks */
int g_lastw;         /* width of the last look that succeeded after the first (-1: none) */
long g_adv;          /* bits consumed by the one oggpack_adv (-1: none) */
int g_adv_calls;
/* ASSUMED libogg (body-ful stubs recording ghosts): look does not consume; it
   returns -1 (not enough data) or a value below 2^bits */
long oggpack_look(oggpack_buffer *b, int bits) {
  __CPROVER_assert(bits >= 0 && bits <= 32, "look width within 0..32");
  long r = nondet_long();
  if (g_looks == 0) { __CPROVER_assume(r == -1 || r == g_lok); }
  else { __CPROVER_assume(r == -1 || (r >= 0 && (bits == 32 ? r <= 0xffffffffL : r < (1L << bits)))); if (r >= 0) g_lastw = bits; }
  g_looks++;
  return r;
}
void oggpack_adv(oggpack_buffer *b, int bits) { g_adv = bits; g_adv_calls++; }

/* the decode codebook as vorbis_book_init_decode builds it (INV_BOOK) */
#define BOOK_SHAPE(k) (RW(k, sizeof(codebook)) && (k)->used_entries >= 1 && (k)->used_entries <= (1L << 24) && \
   (k)->dec_maxlength >= 1 && (k)->dec_maxlength <= 32 && (k)->dec_firsttablen >= 1 && (k)->dec_firsttablen <= 8 && \
   RW((k)->codelist, sizeof(ogg_uint32_t) * (k)->used_entries) && RW((k)->dec_codelengths, (k)->used_entries) && \
   RW((k)->dec_firsttable, sizeof(ogg_uint32_t) * (1L << (k)->dec_firsttablen)))
/* a first-table word is either entry+1 of a short codeword, or (top bit set) a
   pair of search hints lo / used-hi with lo < hi */
#define FT_OK(k, e) (((e) & 0x80000000UL) ? ((long)(((e) >> 15) & 0x7fff) < (k)->used_entries - (long)((e) & 0x7fff)) \
                                           : ((e) >= 1 && (long)(e) <= (k)->used_entries))

static long decode_packed_entry_number(codebook *book, oggpack_buffer *b)
  __CPROVER_requires(BOOK_SHAPE(book) && 0 <= g_lok && g_lok < (1L << book->dec_firsttablen) && FT_OK(book, book->dec_firsttable[g_lok]))
  __CPROVER_requires(g_looks == 0 && g_lastw == -1 && g_adv == -1 && g_adv_calls == 0)
  __CPROVER_assigns(g_looks, g_lastw, g_adv, g_adv_calls)
  /* an entry of the book, or end of packet */
  __CPROVER_ensures(RV >= -1 && RV < book->used_entries)
  /* an accepted codeword consumes exactly its own length ... */
  __CPROVER_ensures(RV >= 0 ==> (g_adv_calls == 1 && g_adv == book->dec_codelengths[RV]))
  /* ... which never exceeds what was looked at on the slow path */
  __CPROVER_ensures((RV >= 0 && g_lastw != -1) ==> g_adv <= g_lastw)
  /* C05: near the end of a packet the look is retried with fewer bits; whatever
     width finally succeeded is the width the decision is made with: a rejected
     word consumes exactly the bits that were looked at (so a codeword as long as
     the bits left is NOT rejected: it would have been accepted, previous clause) */
  __CPROVER_ensures((RV == -1 && g_lastw != -1) ==> (g_adv_calls == 1 && g_adv == g_lastw))
  __CPROVER_ensures((RV == -1 && g_lastw == -1) ==> g_adv_calls == 0)
#ifdef VERIF_ENFORCE_decode_packed_entry_number
  REACH_ENSURES(RV >= 0 && g_lastw == -1)
  REACH_ENSURES(RV >= 0 && g_lastw != -1 && g_lastw < book->dec_maxlength && g_adv == g_lastw)
  REACH_ENSURES(RV == -1 && g_lastw != -1)
  REACH_ENSURES(RV == -1 && g_lastw == -1)
#endif
  ;
#endif
