/* contracts for lib/vorbisenc.c (properties C15, C14) */
#ifndef VERIF_VORBISENC_SPEC_H
#define VERIF_VORBISENC_SPEC_H
#include "common.h"
#include "vorbis/codec.h"
#include "vorbis/vorbisenc.h"
#include "codec_internal.h"

double g_base;   /* harness-owned cell for *base_setting */

#ifdef VERIF_UNIT_TEMPLATE
#define TPL ((const ve_setup_data_template *)RV)
/* C15: for EVERY channel count, rate and request (NaN, infinities, negatives
   included) the look-up yields no template, or a template together with a base
   setting whose integer part `is` satisfies 0 <= is and is+1 <= mappings - the
   index range of every per-quality table x[is], x[is+1] that set-up reads */
static const void *get_setup_template(long ch, long srate, double req, int q_or_bitrate, double *base_setting)
  __CPROVER_requires(base_setting == &g_base)
  __CPROVER_assigns(g_base)
  __CPROVER_ensures(RV == NULL || (TPL->mappings >= 1 && (int)g_base >= 0 && (int)g_base + 1 <= TPL->mappings && g_base > -1.0))
  __CPROVER_ensures(RV != NULL ==> ((TPL->coupling_restriction == -1 || TPL->coupling_restriction == ch) &&
                                    srate >= TPL->samplerate_min_restriction && srate <= TPL->samplerate_max_restriction))
#ifdef VERIF_ENFORCE_get_setup_template
  REACH_ENSURES(RV != NULL && q_or_bitrate == 0 && (int)g_base == TPL->mappings - 1)
  REACH_ENSURES(RV != NULL && q_or_bitrate != 0 && (int)g_base == 0)
  REACH_ENSURES(RV == NULL && ch == 2 && srate == 44100)
  REACH_ENSURES(RV != NULL && req != req)
#endif
  ;
#undef TPL
#endif
#endif
