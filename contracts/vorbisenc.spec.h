/* contracts for lib/vorbisenc.c (properties C15, C14) */
#ifndef VERIF_VORBISENC_SPEC_H
#define VERIF_VORBISENC_SPEC_H
#include "common.h"
#include "vorbis/codec.h"
#include "vorbis/vorbisenc.h"
#include "codec_internal.h"

double g_base;   /* harness-owned cell for *base_setting */

#ifdef VERIF_UNIT_TEMPLATE
#define TPL ((const ve_setup_data_template *)RV)
/* C15: for EVERY channel count, rate and request (NaN, infinities, negatives
   included) the look-up yields no template, or a template together with a base
   setting whose integer part `is` satisfies 0 <= is and is+1 <= mappings - the
   index range of every per-quality table x[is], x[is+1] that set-up reads */
static const void *get_setup_template(long ch, long srate, double req, int q_or_bitrate, double *base_setting)
  __CPROVER_requires(base_setting == &g_base)
  __CPROVER_assigns(g_base)
  __CPROVER_ensures(RV == NULL || (TPL->mappings >= 1 && (int)g_base >= 0 && (int)g_base + 1 <= TPL->mappings && g_base > -1.0))
  __CPROVER_ensures(RV != NULL ==> ((TPL->coupling_restriction == -1 || TPL->coupling_restriction == ch) &&
                                    srate >= TPL->samplerate_min_restriction && srate <= TPL->samplerate_max_restriction))
#ifdef VERIF_ENFORCE_get_setup_template
  REACH_ENSURES(RV != NULL && q_or_bitrate == 0 && (int)g_base == TPL->mappings - 1)
  REACH_ENSURES(RV != NULL && q_or_bitrate != 0 && (int)g_base == 0)
  REACH_ENSURES(RV == NULL && ch == 2 && srate == 44100)
  REACH_ENSURES(RV != NULL && req != req)
#endif
  ;
#undef TPL
#endif

#ifdef VERIF_UNIT_CTL
#define TPL ((const ve_setup_data_template *)RV)
#define CI_OF(vi) ((codec_setup_info *)(vi)->codec_setup)
#define HI_OF(vi) (&CI_OF(vi)->hi)
/* callee contracts (get_setup_template is proved against the stronger form in unit enc_template) */
static const void *get_setup_template(long ch, long srate, double req, int q_or_bitrate, double *base_setting)
  __CPROVER_requires(__CPROVER_rw_ok(base_setting, sizeof(double)))
  __CPROVER_assigns(*base_setting)
  __CPROVER_ensures(RV == NULL || (FRESH(RV, sizeof(ve_setup_data_template)) && TPL->mappings >= 1 && (int)*base_setting >= 0 &&
                                   *base_setting < 64. && (long)(int)*base_setting + 1 <= TPL->mappings && *base_setting > -1.0));
/* what vorbis_encode_setup_setting needs: a template and a base setting whose
   integer part and its successor index the per-quality tables */
static void vorbis_encode_setup_setting(vorbis_info *vi, long channels, long rate)
  __CPROVER_requires(HI_OF(vi)->setup != NULL && HI_OF(vi)->base_setting > -1. && HI_OF(vi)->base_setting < 64. &&
                     (int)HI_OF(vi)->base_setting >= 0 &&
                     (long)(int)HI_OF(vi)->base_setting + 1 <= ((const ve_setup_data_template *)HI_OF(vi)->setup)->mappings)
  __CPROVER_assigns(vi->version, vi->channels, vi->rate, HI_OF(vi)->impulse_block_p, HI_OF(vi)->noise_normalize_p,
                    HI_OF(vi)->stereo_point_setting, HI_OF(vi)->lowpass_kHz, HI_OF(vi)->ath_floating_dB, HI_OF(vi)->ath_absolute_dB,
                    HI_OF(vi)->amplitude_track_dBpersec, HI_OF(vi)->trigger_setting, HI_OF(vi)->block);

/* ghost snapshot of the settings the control interface may change */
#define O_(f) OLD(HI_OF(vi)->f)
#define OP_(f) OLD(HI_OF(vi)->f)
#define HI_SAME(vi) (HI_OF(vi)->managed == O_(managed) && HI_OF(vi)->bitrate_min == O_(bitrate_min) && \
   HI_OF(vi)->bitrate_max == O_(bitrate_max) && HI_OF(vi)->bitrate_av == O_(bitrate_av) && \
   HI_OF(vi)->bitrate_reservoir == O_(bitrate_reservoir) && HI_OF(vi)->coupling_p == O_(coupling_p) && \
   HI_OF(vi)->lowpass_altered == O_(lowpass_altered) && HI_OF(vi)->setup == OP_(setup) && \
   HI_OF(vi)->set_in_stone == O_(set_in_stone))
#define A2 ((struct ovectl_ratemanage2_arg *)arg)
#define KNOWN_REQ(n) ((n) == OV_ECTL_RATEMANAGE_GET || (n) == OV_ECTL_RATEMANAGE_SET || (n) == OV_ECTL_RATEMANAGE_AVG || \
   (n) == OV_ECTL_RATEMANAGE_HARD || (n) == OV_ECTL_RATEMANAGE2_GET || (n) == OV_ECTL_RATEMANAGE2_SET || \
   (n) == OV_ECTL_LOWPASS_GET || (n) == OV_ECTL_LOWPASS_SET || (n) == OV_ECTL_IBLOCK_GET || (n) == OV_ECTL_IBLOCK_SET || \
   (n) == OV_ECTL_COUPLING_GET || (n) == OV_ECTL_COUPLING_SET)
/* requests that dereference arg without a NULL test: API precondition */
#define NEEDS_ARG(n) ((n) == OV_ECTL_RATEMANAGE_GET || (n) == OV_ECTL_LOWPASS_GET || (n) == OV_ECTL_LOWPASS_SET || \
   (n) == OV_ECTL_IBLOCK_GET || (n) == OV_ECTL_IBLOCK_SET || (n) == OV_ECTL_COUPLING_GET || (n) == OV_ECTL_COUPLING_SET)

int vorbis_encode_ctl(vorbis_info *vi, int number, void *arg)
  /* vi == NULL (answered OV_EINVAL) is decided in unit enc_ctl_null; OLD() cannot be guarded */
  __CPROVER_requires(vi != NULL && __CPROVER_rw_ok(vi, sizeof(*vi)) && __CPROVER_rw_ok(vi->codec_setup, sizeof(codec_setup_info)) && vi->rate >= 1)
  __CPROVER_requires(arg == NULL || __CPROVER_rw_ok(arg, sizeof(struct ovectl_ratemanage_arg)))
  __CPROVER_requires(NEEDS_ARG(number) ==> arg != NULL)
  /* application-supplied rates are below 2^40 (kbps*1000 and sums do not wrap) */
#define AR ((struct ovectl_ratemanage_arg *)arg)
#define SMALL(x) ((x) > -(1L << 40) && (x) < (1L << 40))
  __CPROVER_requires((arg != NULL && number == OV_ECTL_RATEMANAGE2_SET) ==> (SMALL(A2->bitrate_limit_min_kbps) && SMALL(A2->bitrate_limit_max_kbps) && SMALL(A2->bitrate_average_kbps)))
  __CPROVER_requires((arg != NULL && (number == OV_ECTL_RATEMANAGE_SET || number == OV_ECTL_RATEMANAGE_AVG || number == OV_ECTL_RATEMANAGE_HARD)) ==>
                     (SMALL(AR->bitrate_av_lo) && SMALL(AR->bitrate_av_hi) && SMALL(AR->bitrate_hard_min) && SMALL(AR->bitrate_hard_max)))
#define IS_GET(n) ((n) == OV_ECTL_RATEMANAGE_GET || (n) == OV_ECTL_RATEMANAGE2_GET || (n) == OV_ECTL_LOWPASS_GET || \
   (n) == OV_ECTL_IBLOCK_GET || (n) == OV_ECTL_COUPLING_GET)
  __CPROVER_assigns(CI_OF(vi)->hi)
  __CPROVER_assigns(number == OV_ECTL_COUPLING_SET: vi->version, vi->channels, vi->rate)
  /* only GET requests write through arg */
  __CPROVER_assigns((arg != NULL && IS_GET(number)): __CPROVER_object_whole(arg))
  __CPROVER_ensures(RV == 0 || RV == OV_EINVAL || RV == OV_EIMPL)
  /* once the set-up is final every SET request is refused and changes nothing */
  __CPROVER_ensures((vi != NULL && O_(set_in_stone) && (number & 0xf)) ==> (RV == OV_EINVAL && HI_SAME(vi)))
  __CPROVER_ensures((vi != NULL && !KNOWN_REQ(number) && !(O_(set_in_stone) && (number & 0xf))) ==> (RV == OV_EIMPL && HI_SAME(vi)))
  /* a refused request never changes the rate-management settings */
  __CPROVER_ensures((vi != NULL && RV != 0) ==> (HI_OF(vi)->managed == O_(managed) && HI_OF(vi)->bitrate_min == O_(bitrate_min) &&
                     HI_OF(vi)->bitrate_max == O_(bitrate_max) && HI_OF(vi)->bitrate_av == O_(bitrate_av) &&
                     HI_OF(vi)->bitrate_reservoir == O_(bitrate_reservoir)))
  /* C14/C15: what RATEMANAGE2_SET lets through is exactly what the bitrate
     manager's invariant needs: min <= max when both set, average between them,
     positive damping, reservoir >= 0, bias in [0,1] */
  /* (NaN damping / bias pass the comparisons of the validation: excluded here, noted in DESIGN) */
  __CPROVER_ensures((vi != NULL && number == OV_ECTL_RATEMANAGE2_SET && arg != NULL && RV == 0 &&
                     A2->bitrate_average_damping == A2->bitrate_average_damping && A2->bitrate_limit_reservoir_bias == A2->bitrate_limit_reservoir_bias) ==>
     (A2->bitrate_average_damping > 0. && A2->bitrate_limit_reservoir_bits >= 0 &&
      A2->bitrate_limit_reservoir_bias >= 0. && A2->bitrate_limit_reservoir_bias <= 1. &&
      !(A2->bitrate_limit_min_kbps > 0 && A2->bitrate_limit_max_kbps > 0 && A2->bitrate_limit_min_kbps > A2->bitrate_limit_max_kbps) &&
      !(A2->bitrate_limit_min_kbps > 0 && A2->bitrate_average_kbps > 0 && A2->bitrate_limit_min_kbps > A2->bitrate_average_kbps) &&
      !(A2->bitrate_limit_max_kbps > 0 && A2->bitrate_average_kbps > 0 && A2->bitrate_limit_max_kbps < A2->bitrate_average_kbps) &&
      HI_OF(vi)->bitrate_av_damp == A2->bitrate_average_damping && HI_OF(vi)->bitrate_reservoir == A2->bitrate_limit_reservoir_bits &&
      HI_OF(vi)->bitrate_reservoir_bias == A2->bitrate_limit_reservoir_bias && HI_OF(vi)->managed == A2->management_active))
  /* clamps */
  __CPROVER_ensures((vi != NULL && number == OV_ECTL_LOWPASS_SET && RV == 0 && *(double *)arg == *(double *)arg) ==>
                    (HI_OF(vi)->lowpass_kHz >= 2. && HI_OF(vi)->lowpass_kHz <= 99. && HI_OF(vi)->lowpass_altered == 1))
  __CPROVER_ensures((vi != NULL && number == OV_ECTL_IBLOCK_SET && RV == 0 && *(double *)arg == *(double *)arg) ==>
                    (HI_OF(vi)->impulse_noisetune >= -15. && HI_OF(vi)->impulse_noisetune <= 0.))
  /* GET requests change no setting */
  __CPROVER_ensures((vi != NULL && (number & 0xf) == 0) ==> HI_SAME(vi))
#ifdef VERIF_ENFORCE_vorbis_encode_ctl
  REACH_ENSURES(vi != NULL && number == OV_ECTL_RATEMANAGE2_SET && arg != NULL && RV == 0 && A2->bitrate_limit_min_kbps == A2->bitrate_limit_max_kbps && A2->bitrate_limit_max_kbps > 0)
  REACH_ENSURES(vi != NULL && number == OV_ECTL_RATEMANAGE2_SET && RV == OV_EINVAL && !O_(set_in_stone))
  REACH_ENSURES(vi != NULL && number == OV_ECTL_COUPLING_SET && RV == 0)
  REACH_ENSURES(RV == OV_EIMPL)
  REACH_ENSURES(vi != NULL && number == OV_ECTL_RATEMANAGE_SET && arg != NULL && RV == 0)
#endif
  ;
#undef TPL
#endif
#endif
