/* common.h - included first by every harness.  Verification build only
   (XIPH_VORBIS_VERIF is defined on the goto-cc command line). */
#ifndef VERIF_COMMON_H
#define VERIF_COMMON_H

#include <stdlib.h>
#include <string.h>
#include <limits.h>
#include <stddef.h>
#include <alloca.h>
#include <ogg/ogg.h>

#define RV __CPROVER_return_value
#define OLD(x) __CPROVER_old(x)
#define FRESH(p, n) __CPROVER_is_fresh((p), (n))

/* a reachability point: an assertion that MUST FAIL (be reachable with cond
   true).  The driver counts FAILURE on a VREACH assertion as "reached" and
   never as a violation; a VREACH assertion that succeeds means the path is
   dead (contradictory requires / vacuous proof) and turns the unit UNDECIDED. */
#define VREACH(cond, label) __CPROVER_assert(!(cond), "VREACH " label)

/* the same inside a contract: a postcondition that MUST FAIL.  Only legal
   under #ifdef VERIF_ENFORCE_<function> (the driver defines it in the unit
   that enforces that contract and nowhere else), so that it is never assumed
   at a call site.  One per source line. */
#define REACH_ENSURES(cond) __CPROVER_ensures(!(cond))

/* ---- stack budget for alloca ------------------------------------------
   The real build uses the compiler's alloca.  Here every alloca site first
   passes through an obligation that the request fits a fixed budget (1 MiB
   per request; the default thread stack is 8 MiB), then calls the same
   builtin.  This adds an assertion and changes nothing else. */
#ifndef VERIF_ALLOCA_BUDGET
#define VERIF_ALLOCA_BUDGET (1L << 20)
#endif
static inline void verif_alloca_check(unsigned long n) {
  __CPROVER_assert(n <= (unsigned long)VERIF_ALLOCA_BUDGET, "alloca request within the stack budget");
}
#undef alloca
#define alloca(n) (verif_alloca_check((unsigned long)(n)), __builtin_alloca(n))

/* ghost state (mentioned only in contracts and harnesses) */
extern unsigned long g_bits_read;    /* bits consumed from the abstract bit reader (unsigned: wraps, no overflow obligation) */
extern unsigned long g_bits_written; /* bits appended to the abstract bit writer */

#endif
