/* contracts for the vorbisfile accessors (lib/vorbisfile.c) - C03, C12, C09 */
#ifndef VERIF_VF_ACCESS_SPEC_H
#define VERIF_VF_ACCESS_SPEC_H
#include "vf_open.spec.h"

#ifndef VF_MAXLINKS
#define VF_MAXLINKS (1 << 20)
#endif
/* link lengths are never negative (_open_seekable2 / _bisect_forward_serialno
   clamp them).  Only units that add lengths up need it; it is stated for the
   first four links there (VF_MAXLINKS=4). */
#ifdef VF_NEED_LEN_NONNEG
#define VF_LEN1(vf, l) ((vf)->links <= (l) || ((vf)->pcmlengths[2 * (l) + 1] >= 0 && (vf)->pcmlengths[2 * (l) + 1] < (1LL << 60)))
#define VF_LEN_NONNEG(vf) (VF_LEN1(vf, 0) && VF_LEN1(vf, 1) && VF_LEN1(vf, 2) && VF_LEN1(vf, 3))
#else
#define VF_LEN_NONNEG(vf) 1
#endif
/* representation invariant of an opened seekable handle (what _open_seekable2
   builds): link tables sized by `links` */
#define INV_VF_TABLES(vf) ((vf)->links >= 1 && (vf)->links <= VF_MAXLINKS && \
   FRESH((vf)->pcmlengths, sizeof(ogg_int64_t) * (2 * (vf)->links)) && \
   FRESH((vf)->offsets, sizeof(ogg_int64_t) * ((vf)->links + 1)) && \
   FRESH((vf)->dataoffsets, sizeof(ogg_int64_t) * (vf)->links) && \
   FRESH((vf)->serialnos, sizeof(long) * (vf)->links) && \
   FRESH((vf)->vi, sizeof(vorbis_info) * (vf)->links) && \
   FRESH((vf)->vc, sizeof(vorbis_comment) * (vf)->links) && \
   (vf)->current_link >= 0 && (vf)->current_link < (vf)->links && VF_LEN_NONNEG(vf))
/* a handle as any sequence of public calls can leave it: seekable with full
   tables, or streaming with one link; pcm_offset may be -1 (unset: the state
   every failed seek leaves) */
#define INV_VF(vf) (FRESH(vf, sizeof(OggVorbis_File)) && ((vf)->seekable == 0 || (vf)->seekable == 1) && \
   (vf)->ready_state >= 0 && (vf)->ready_state <= INITSET && (vf)->pcm_offset >= -1 && \
   ((vf)->ready_state >= OPENED ==> (INV_VF_TABLES(vf) && ((vf)->seekable || (vf)->links == 1))))

long g_k;   /* ghost link index */

#ifndef VERIF_TOTAL_GHOST
ogg_int64_t ov_pcm_total(OggVorbis_File *vf, int i)
  __CPROVER_requires(INV_VF(vf))
  __CPROVER_assigns()
  __CPROVER_ensures((vf->ready_state < OPENED || !vf->seekable || i >= vf->links) ==> RV == OV_EINVAL)
  __CPROVER_ensures((vf->ready_state >= OPENED && vf->seekable && i >= 0 && i < vf->links) ==> RV == vf->pcmlengths[i * 2 + 1]);

#endif
ogg_int64_t ov_raw_total(OggVorbis_File *vf, int i)
  __CPROVER_requires(INV_VF(vf))
  __CPROVER_assigns()
  __CPROVER_ensures((vf->ready_state < OPENED || !vf->seekable || i >= vf->links) ==> RV == OV_EINVAL)
  __CPROVER_ensures((vf->ready_state >= OPENED && vf->seekable && i >= 0 && i < vf->links) ==> RV == vf->offsets[i + 1] - vf->offsets[i]);

double ov_time_total(OggVorbis_File *vf, int i)
  __CPROVER_requires(INV_VF(vf))
  __CPROVER_assigns()
  __CPROVER_ensures((vf->ready_state < OPENED || !vf->seekable || i >= vf->links) ==> RV == (double)OV_EINVAL);

double ov_time_tell(OggVorbis_File *vf)
  __CPROVER_requires(INV_VF(vf))
  __CPROVER_assigns()
  __CPROVER_ensures(vf->ready_state < OPENED ==> RV == (double)OV_EINVAL);

long ov_serialnumber(OggVorbis_File *vf, int i)
  __CPROVER_requires(INV_VF(vf) && vf->ready_state >= OPENED)
  __CPROVER_assigns()
  __CPROVER_ensures((vf->seekable && i >= 0 && i < vf->links) ==> RV == vf->serialnos[i])
  __CPROVER_ensures((i < 0 || !vf->seekable) ==> RV == vf->current_serialno);

vorbis_info *ov_info(OggVorbis_File *vf, int link)
  __CPROVER_requires(INV_VF(vf) && vf->ready_state >= OPENED)
  __CPROVER_assigns()
  __CPROVER_ensures(RV == NULL || (RV >= vf->vi && RV < vf->vi + vf->links))
  __CPROVER_ensures((vf->seekable && link >= 0 && link < vf->links) ==> RV == vf->vi + link)
  __CPROVER_ensures((vf->seekable && link >= vf->links) ==> RV == NULL);

vorbis_comment *ov_comment(OggVorbis_File *vf, int link)
  __CPROVER_requires(INV_VF(vf) && vf->ready_state >= OPENED)
  __CPROVER_assigns()
  __CPROVER_ensures(RV == NULL || (RV >= vf->vc && RV < vf->vc + vf->links))
  __CPROVER_ensures((vf->seekable && link >= 0 && link < vf->links) ==> RV == vf->vc + link);

long ov_bitrate_instant(OggVorbis_File *vf)
  __CPROVER_requires(INV_VF(vf))
  __CPROVER_assigns(vf->bittrack, vf->samptrack)
  __CPROVER_ensures(vf->ready_state < OPENED ==> RV == OV_EINVAL);
#endif
