/* contract for vorbis_synthesis_headerin (lib/info.c): the header-order state
   machine (C02 "in whatever order", C01 4.2) */
#ifndef VERIF_HEADERIN_SPEC_H
#define VERIF_HEADERIN_SPEC_H
#include "assumed/ogg.spec.h"
#include "vorbis/codec.h"
#include "codec_internal.h"
#define RW(p, n) __CPROVER_rw_ok((p), (n))
int g_ui, g_uc, g_ub;      /* calls of the three unpackers */
int g_uret;
/* the unpackers (each proved in its own unit where one exists): what each NEEDS
   from the dispatcher is its requires clause */
static int _vorbis_unpack_info(vorbis_info *vi, oggpack_buffer *opb)
  __CPROVER_requires(vi->rate == 0)                      /* never onto an already initialised info */
  __CPROVER_assigns(*vi, g_ui, g_uret) __CPROVER_ensures(g_ui == OLD(g_ui) + 1 && RV == g_uret);
static int _vorbis_unpack_comment(vorbis_comment *vc, oggpack_buffer *opb)
  __CPROVER_requires(vc->vendor == NULL)                 /* would leak the previous comments otherwise */
  __CPROVER_assigns(*vc, g_uc, g_uret) __CPROVER_ensures(g_uc == OLD(g_uc) + 1 && RV == g_uret);
static int _vorbis_unpack_books(vorbis_info *vi, oggpack_buffer *opb)
  __CPROVER_requires(vi->codec_setup != NULL && ((codec_setup_info *)vi->codec_setup)->books <= 0)   /* dereferences the setup; a second setup header would leak/overrun */
  __CPROVER_assigns(*vi, g_ub, g_uret) __CPROVER_ensures(g_ub == OLD(g_ub) + 1 && RV == g_uret);

int vorbis_synthesis_headerin(vorbis_info *vi, vorbis_comment *vc, ogg_packet *op)
  __CPROVER_requires(RW(vi, sizeof(*vi)) && RW(vc, sizeof(*vc)) && (op == NULL || (RW(op, sizeof(*op)) && op->bytes >= 0 && op->bytes <= 0x7fffffffL)))
  __CPROVER_requires(vi->codec_setup == NULL || RW(vi->codec_setup, sizeof(codec_setup_info)))
  __CPROVER_requires(g_ui == 0 && g_uc == 0 && g_ub == 0)
  __CPROVER_assigns(*vi, *vc, g_ui, g_uc, g_ub, g_uret, g_bits_read)
  __CPROVER_ensures(g_ui + g_uc + g_ub <= 1)
  __CPROVER_ensures(op == NULL ==> RV == OV_EBADHEADER)
  /* without an unpacker call the answer is one of the documented refusals and nothing was touched */
  __CPROVER_ensures(g_ui + g_uc + g_ub == 0 ==> (RV == OV_EBADHEADER || RV == OV_ENOTVORBIS || RV == OV_EFAULT))
  __CPROVER_ensures(g_ui + g_uc + g_ub == 0 ==> (vi->rate == OLD(vi->rate) && vi->codec_setup == OLD(vi->codec_setup) && vc->vendor == OLD(vc->vendor)))
  __CPROVER_ensures(g_ui + g_uc + g_ub == 1 ==> RV == g_uret)
  /* the order rules: ID header only first (b_o_s, nothing parsed yet); comments only
     after the ID header and only once; setup only after both and only once */
  __CPROVER_ensures(g_ui == 1 ==> (op->b_o_s != 0 && OLD(vi->rate) == 0))
  __CPROVER_ensures(g_uc == 1 ==> (OLD(vi->rate) != 0 && OLD(vc->vendor) == NULL))
  __CPROVER_ensures(g_ub == 1 ==> (OLD(vi->rate) != 0 && OLD(vc->vendor) != NULL))
#ifdef VERIF_ENFORCE_vorbis_synthesis_headerin
  REACH_ENSURES(g_ui == 1)
  REACH_ENSURES(g_uc == 1)
  REACH_ENSURES(g_ub == 1)
  REACH_ENSURES(RV == OV_EFAULT)
  REACH_ENSURES(RV == OV_ENOTVORBIS)
#endif
  ;
#endif
