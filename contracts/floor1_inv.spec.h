/* contract for floor1_inverse2 (lib/floor1.c) - C02: the curve is rendered into
   HALF THE CURRENT BLOCK, whatever X range the floor was declared with; table
   look-ups guarded by the 0..255 clamps; C01 (7.2.4 step 2: unused posts skipped) */
#ifndef VERIF_FLOOR1_INV_SPEC_H
#define VERIF_FLOOR1_INV_SPEC_H
#include "common.h"
#include "vorbis/codec.h"
#include "codec_internal.h"
#define RW(p, n) __CPROVER_rw_ok((p), (n))
int nondet_int(void);
int g_lines;      /* line segments rendered */
long g_n;         /* half the current block size (length of the output vector) */
#endif
