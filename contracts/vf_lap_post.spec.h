static int _ov_initset(OggVorbis_File *vf)
  __CPROVER_assigns(vf->ready_state, vf->current_link, vf->pcm_offset, vf->offset)
  __CPROVER_ensures(RV <= 0 && (RV == 0 ==> vf->ready_state == INITSET) && vf->current_link >= 0 && vf->current_link < vf->links);
static int _ov_initprime(OggVorbis_File *vf)
  __CPROVER_requires(g_seek_calls_l == 1 && g_seek_ret == 0)
  __CPROVER_assigns(vf->ready_state, vf->current_link, vf->pcm_offset, vf->offset, g_prime_calls, g_prime_ret)
  __CPROVER_ensures(RV <= 0 && RV == g_prime_ret && g_prime_calls == OLD(g_prime_calls) + 1 && (RV == 0 ==> vf->ready_state == INITSET) && vf->current_link >= 0 && vf->current_link < vf->links);
/* _ov_getlap fills lapsize floats of each of vi->channels rows and does not span links */
static void _ov_getlap(OggVorbis_File *vf, vorbis_info *vi, vorbis_dsp_state *vd, float **lappcm, int lapsize)
  __CPROVER_requires(vi == vf->vi + vf->current_link && vd == &vf->vd && lapsize == (g_bs0[vf->current_link] >> (1 + g_hsflag)))
  __CPROVER_requires(RW(lappcm, sizeof(float *) * vi->channels) && RW(lappcm[0], sizeof(float) * lapsize) && (vi->channels < 2 || RW(lappcm[1], sizeof(float) * lapsize)))
  __CPROVER_assigns(vf->pcm_offset, vf->offset, g_getlap_calls, g_link_at_getlap, g_lappcm, g_lap_n)
  __CPROVER_ensures(g_getlap_calls == OLD(g_getlap_calls) + 1 && g_link_at_getlap == vf->current_link && g_lappcm == lappcm && g_lap_n == lapsize);
static void _ov_splice(float **pcm, float **lappcm, int n1, int n2, int ch1, int ch2, const float *w1, const float *w2)
  /* the splice reads ch2 row pointers from pcm and ch1 from lappcm */
  __CPROVER_requires(ch2 >= 1 && RW(pcm, sizeof(float *) * ch2) && ch1 >= 1 && RW(lappcm, sizeof(float *) * ch1))
  __CPROVER_assigns(g_splice_calls, g_s_n1, g_s_n2, g_s_ch1, g_s_ch2, g_s_w1, g_s_w2, g_s_pcm, g_s_lap)
  __CPROVER_ensures(g_splice_calls == OLD(g_splice_calls) + 1 && g_s_n1 == n1 && g_s_n2 == n2 && g_s_ch1 == ch1 && g_s_ch2 == ch2 && g_s_w1 == w1 && g_s_w2 == w2 && g_s_pcm == pcm && g_s_lap == lappcm);

#define NEWL (vf->current_link)
static int _ov_64_seek_lap(OggVorbis_File *vf, ogg_int64_t pos, int (*localseek)(OggVorbis_File *, ogg_int64_t))
  __CPROVER_requires(g_getlap_calls == 0 && g_seek_calls_l == 0 && g_prime_calls == 0 && g_lapout_calls == 0 && g_splice_calls == 0 && g_link_at_getlap == -1)
  __CPROVER_assigns(vf->ready_state, vf->current_link, vf->pcm_offset, vf->offset, g_getlap_calls, g_link_at_getlap, g_lappcm, g_lap_n, g_seek_calls_l, g_seek_ret,
                    g_prime_calls, g_prime_ret, g_lapout_calls, g_pcm, g_splice_calls, g_s_n1, g_s_n2, g_s_ch1, g_s_ch2, g_s_w1, g_s_w2, g_s_pcm, g_s_lap, __CPROVER_alloca_object)
  /* not open: refused before anything happens */
  __CPROVER_ensures(OLD(vf->ready_state) < OPENED ==> (RV == OV_EINVAL && g_getlap_calls == 0 && g_seek_calls_l == 0))
  /* fails wherever the plain seek fails, with its code, and without splicing */
  __CPROVER_ensures((g_seek_calls_l == 1 && g_seek_ret != 0) ==> (RV == g_seek_ret && g_splice_calls == 0 && g_lapout_calls == 0))
  __CPROVER_ensures((g_prime_calls == 1 && g_prime_ret != 0) ==> (RV == g_prime_ret && g_splice_calls == 0))
  /* success: lap data of the OLD link, then the seek, then priming, then ONE splice
     that is told the old link's lap geometry and the NEW link's channel count,
     lap size and window, over the buffer the decoder exposed */
  __CPROVER_ensures(RV == 0 ==> (g_getlap_calls == 1 && g_seek_calls_l == 1 && g_prime_calls == 1 && g_lapout_calls == 1 && g_splice_calls == 1))
  __CPROVER_ensures(RV == 0 ==> (g_s_lap == g_lappcm && g_s_pcm == g_pcm && g_s_ch1 == vf->vi[g_link_at_getlap].channels && g_s_n1 == g_lap_n && g_s_w1 == g_win[g_link_at_getlap]))
  __CPROVER_ensures(RV == 0 ==> (g_s_ch2 == vf->vi[NEWL].channels && g_s_n2 == (g_bs0[NEWL] >> (1 + g_hsflag)) && g_s_w2 == g_win[NEWL]))
  __CPROVER_ensures((RV != 0 && OLD(vf->ready_state) >= OPENED) ==> g_splice_calls == 0)
#ifdef VERIF_ENFORCE__ov_64_seek_lap
  REACH_ENSURES(RV == 0 && g_link_at_getlap == 0 && vf->current_link == 1 && g_s_ch1 == 2 && g_s_ch2 == 1)
  REACH_ENSURES(RV == 0 && g_link_at_getlap == 1 && vf->current_link == 1)
  REACH_ENSURES(RV < 0 && g_seek_calls_l == 1 && g_seek_ret != 0)
  REACH_ENSURES(RV == OV_EINVAL && g_getlap_calls == 0)
#endif
  ;
