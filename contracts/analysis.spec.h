/* contract for lib/analysis.c: vorbis_analysis (C05, C14) */
#ifndef VERIF_ANALYSIS_SPEC_H
#define VERIF_ANALYSIS_SPEC_H
#include "assumed/ogg.spec.h"
#include "vorbis/codec.h"
#include "codec_internal.h"
#include "registry.h"
#define RW(p, n) __CPROVER_rw_ok((p), (n))
#define ABLOB(vb, i) (((vorbis_block_internal *)(vb)->internal)->packetblob[i])
int g_fwd_calls, g_fwd_ret;
long g_i;   /* ghost blob index */

/* ASSUMED libogg: oggpack_reset rewinds a write buffer (body-ful stub: plain assignments) */
void oggpack_reset(oggpack_buffer *b) { if (!b->ptr) return; b->ptr = b->buffer; b->endbit = 0; b->endbyte = 0; }
unsigned char *oggpack_get_buffer(oggpack_buffer *b) __CPROVER_assigns() __CPROVER_ensures(RV == b->buffer);
int vorbis_bitrate_managed(vorbis_block *vb)
  __CPROVER_assigns() __CPROVER_ensures(RV == (((private_state *)vb->vd->backend_state)->bms.managed ? 1 : 0));

/* the mapping back end behind _mapping_P[0]->forward: it APPENDS one candidate
   packet to each of the PACKETBLOBS buffers, so it needs every one of them
   rewound (C05: each candidate is one valid audio packet, not a concatenation) */
int verif_mapping_forward(vorbis_block *vb)
  __CPROVER_requires(RW(vb, sizeof(*vb)) && g_fwd_calls == 0)
  __CPROVER_requires((0 <= g_i && g_i < PACKETBLOBS) ==> (ABLOB(vb, g_i)->endbyte == 0 && ABLOB(vb, g_i)->endbit == 0 &&
                                                         ABLOB(vb, g_i)->ptr == ABLOB(vb, g_i)->buffer))
  __CPROVER_requires(vb->glue_bits == 0 && vb->time_bits == 0 && vb->floor_bits == 0 && vb->res_bits == 0)
  __CPROVER_assigns(g_fwd_calls, g_fwd_ret)
  __CPROVER_ensures(g_fwd_calls == 1 && RV == g_fwd_ret);
/* ASSUMED: mapping type 0's bundle has mapping0_forward in its `forward` slot (mapping0.c:807) */
const vorbis_func_mapping mapping0_exportbundle = {0, 0, 0, &verif_mapping_forward, 0};

int vorbis_analysis(vorbis_block *vb, ogg_packet *op)
  __CPROVER_requires(RW(vb, sizeof(*vb)) && RW(vb->internal, sizeof(vorbis_block_internal)) && RW(vb->vd, sizeof(vorbis_dsp_state)) &&
                     RW(vb->vd->backend_state, sizeof(private_state)) && (op == NULL || RW(op, sizeof(*op))))
  __CPROVER_requires(g_fwd_calls == 0 && 0 <= g_i && g_i < PACKETBLOBS && RW(ABLOB(vb, g_i), sizeof(oggpack_buffer)) &&
                     ABLOB(vb, g_i)->ptr != NULL && vb->opb.endbit >= 0 && vb->opb.endbit < 8 && vb->opb.endbyte >= 0 && vb->opb.endbyte < (1L << 40))
  __CPROVER_assigns(vb->glue_bits, vb->time_bits, vb->floor_bits, vb->res_bits, g_fwd_calls, g_fwd_ret)
  __CPROVER_assigns(op != NULL: *op)
  __CPROVER_assigns(__CPROVER_object_whole(ABLOB(vb, 0)), __CPROVER_object_whole(ABLOB(vb, 1)), __CPROVER_object_whole(ABLOB(vb, 2)),
                    __CPROVER_object_whole(ABLOB(vb, 3)), __CPROVER_object_whole(ABLOB(vb, 4)), __CPROVER_object_whole(ABLOB(vb, 5)),
                    __CPROVER_object_whole(ABLOB(vb, 6)), __CPROVER_object_whole(ABLOB(vb, 7)), __CPROVER_object_whole(ABLOB(vb, 8)),
                    __CPROVER_object_whole(ABLOB(vb, 9)), __CPROVER_object_whole(ABLOB(vb, 10)), __CPROVER_object_whole(ABLOB(vb, 11)),
                    __CPROVER_object_whole(ABLOB(vb, 12)), __CPROVER_object_whole(ABLOB(vb, 13)), __CPROVER_object_whole(ABLOB(vb, 14)))
  __CPROVER_ensures(g_fwd_calls == 1)
  __CPROVER_ensures(g_fwd_ret != 0 ==> RV == g_fwd_ret)
  /* the direct packet interface is refused under bitrate management */
  __CPROVER_ensures((g_fwd_ret == 0 && op != NULL && ((private_state *)vb->vd->backend_state)->bms.managed) ==> RV == OV_EINVAL)
  __CPROVER_ensures((g_fwd_ret == 0 && op != NULL && !((private_state *)vb->vd->backend_state)->bms.managed) ==>
                    (RV == 0 && op->packet == vb->opb.buffer && op->bytes == vb->opb.endbyte + (vb->opb.endbit + 7) / 8 &&
                     op->b_o_s == 0 && op->e_o_s == vb->eofflag && op->granulepos == vb->granulepos && op->packetno == vb->sequence))
  __CPROVER_ensures((g_fwd_ret == 0 && op == NULL) ==> RV == 0)
#ifdef VERIF_ENFORCE_vorbis_analysis
  REACH_ENSURES(RV == 0 && op != NULL)
  REACH_ENSURES(RV == OV_EINVAL)
#endif
  ;
#endif
