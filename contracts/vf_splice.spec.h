/* contract for _ov_splice (lib/vorbisfile.c) - C19, C03 */
#ifndef VERIF_VF_SPLICE_SPEC_H
#define VERIF_VF_SPLICE_SPEC_H
#include "vf_open.spec.h"
long g_j, g_i;        /* ghost channel / sample */
float g_old;          /* pcm[g_j][g_i] at entry */
float g_lap;          /* lappcm[g_j][g_i] at entry (when it exists) */
/* equal as floats, NaN matching NaN */
#define SAMEF(a, b) ((a) == (b) || ((a) != (a) && (b) != (b)))
#define SPL_N ((n1) > (n2) ? (n2) : (n1))
#define SPL_W ((n1) > (n2) ? (w2) : (w1))
#define SPL_WD ((float)(SPL_W[g_i] * SPL_W[g_i]))
#define SPL_WS ((float)(1. - SPL_WD))

static void _ov_splice(float **pcm, float **lappcm, int n1, int n2, int ch1, int ch2, const float *w1, const float *w2)
  /* object graph built by the harness: ch2 rows of n2 floats (new audio), ch1
     rows of n1 floats (lap data), windows of n1 and n2 coefficients */
  __CPROVER_requires(n1 >= 0 && n2 >= 0 && ch1 >= 0 && ch2 >= 0)
  __CPROVER_requires(0 <= g_j && g_j < ch2 && 0 <= g_i && g_i < n2 && g_old == pcm[g_j][g_i])
  __CPROVER_requires((g_j < ch1 && g_i < n1) ==> g_lap == lappcm[g_j][g_i])
  __CPROVER_assigns(ch2 > 0: __CPROVER_object_whole(pcm[0]))
  __CPROVER_assigns(ch2 > 1: __CPROVER_object_whole(pcm[1]))
  /* cross-fade over min(n1,n2) samples with the SQUARED window of that size */
  __CPROVER_ensures((g_i < SPL_N && g_j < ch1) ==> SAMEF(pcm[g_j][g_i], g_old * SPL_WD + g_lap * SPL_WS))
  /* channels the old stream did not have fade in from silence */
  __CPROVER_ensures((g_i < SPL_N && g_j >= ch1) ==> SAMEF(pcm[g_j][g_i], g_old * SPL_WD))
  /* nothing beyond the lap region changes */
  __CPROVER_ensures(g_i >= SPL_N ==> SAMEF(pcm[g_j][g_i], g_old));
#endif
