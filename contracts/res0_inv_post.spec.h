/* included AFTER lib/res0.c: contracts that need the file-local look type */
#ifdef VERIF_RES_WRAPPERS
/* ghost-recording abstraction of _01inverse for the wrappers (its own unit: res_01inverse_b) */
static int _01inverse(vorbis_block *vb, vorbis_look_residue *vl, float **in, int ch,
                      long (*decodepart)(codebook *, float *, oggpack_buffer *, int))
  __CPROVER_requires(ch >= 1)
  __CPROVER_assigns(g_01_calls, g_01_ch, g_01_in, g_01_vb, g_01_vl, g_01_fn)
  __CPROVER_ensures(g_01_calls == OLD(g_01_calls) + 1 && g_01_ch == ch && g_01_in == in && g_01_vb == vb && g_01_vl == vl && g_01_fn == (void *)decodepart)
  __CPROVER_ensures(RV == 0);

/* Vorbis I 8.6.2: vectors marked 'do not decode' take no part in residue decode
   at all: the partition decoder sees exactly the other vectors, in channel order,
   and their count; with none left it is not run.  Format 0 interleaves with
   decodevs_add, format 1 concatenates with decodev_add. */
#define RES_WRAPPER_CONTRACT(FN, PART) \
int FN(vorbis_block *vb, vorbis_look_residue *vl, float **in, int *nonzero, int ch) \
  __CPROVER_requires(g_01_calls == 0) \
  __CPROVER_assigns(__CPROVER_object_whole(in), g_01_calls, g_01_ch, g_01_in, g_01_vb, g_01_vl, g_01_fn) \
  __CPROVER_ensures(RV == 0) \
  __CPROVER_ensures(g_cnt[ch] == 0 ==> g_01_calls == 0) \
  __CPROVER_ensures(g_cnt[ch] > 0 ==> (g_01_calls == 1 && g_01_ch == g_cnt[ch] && g_01_in == in && g_01_vb == (void *)vb && g_01_vl == (void *)vl && g_01_fn == (void *)PART)) \
  __CPROVER_ensures((0 <= g_k && g_k < ch && nonzero[g_k]) ==> in[g_cnt[g_k]] == g_row[g_k])
RES_WRAPPER_CONTRACT(res0_inverse, vorbis_book_decodevs_add)
#ifdef VERIF_ENFORCE_res0_inverse
  REACH_ENSURES(g_01_calls == 1 && g_01_ch == 2 && ch == 5)
  REACH_ENSURES(g_01_calls == 0 && ch == 3)
#endif
  ;
RES_WRAPPER_CONTRACT(res1_inverse, vorbis_book_decodev_add)
#ifdef VERIF_ENFORCE_res1_inverse
  REACH_ENSURES(g_01_calls == 1 && g_01_ch == 2 && ch == 5)
  REACH_ENSURES(g_01_calls == 0 && ch == 3)
#endif
  ;
#endif
#ifdef VERIF_RES_CORE
/* The partition decoders write only memory they obtained themselves (the
   class-word table from the block arena / the stack); everything else they do
   goes through the checked callees (stubs in res0_inv.spec.h). */
static int _01inverse(vorbis_block *vb, vorbis_look_residue *vl, float **in, int ch,
                      long (*decodepart)(codebook *, float *, oggpack_buffer *, int))
  __CPROVER_requires(g_part_calls == 0 && g_class_calls == 0)
  __CPROVER_assigns(g_part_calls, g_class_calls, __CPROVER_alloca_object)
  __CPROVER_ensures(RV == 0)
#ifdef VERIF_ENFORCE__01inverse
  REACH_ENSURES(g_part_calls >= 2)
  REACH_ENSURES(g_part_calls == 0 && g_class_calls == 1)
  REACH_ENSURES(g_class_calls == 0)
#endif
  ;
int res2_inverse(vorbis_block *vb, vorbis_look_residue *vl, float **in, int *nonzero, int ch)
  __CPROVER_requires(g_part_calls == 0 && g_class_calls == 0)
  __CPROVER_assigns(g_part_calls, g_class_calls)
  __CPROVER_ensures(RV == 0)
  /* 8.6.2: a bundle whose vectors are all 'do not decode' reads nothing */
  __CPROVER_ensures(((ch < 1 || !nonzero[0]) && (ch < 2 || !nonzero[1])) ==> (g_part_calls == 0 && g_class_calls == 0))
#ifdef VERIF_ENFORCE_res2_inverse
  REACH_ENSURES(g_part_calls >= 2)
  REACH_ENSURES(g_part_calls == 0 && g_class_calls == 1)
  REACH_ENSURES(g_class_calls == 0 && ch >= 1 && nonzero[0])
#endif
  ;
#endif
