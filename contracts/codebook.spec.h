/* contracts for lib/sharedbook.c and lib/codebook.c */
#ifndef VERIF_CODEBOOK_SPEC_H
#define VERIF_CODEBOOK_SPEC_H
#include "assumed/ogg.spec.h"
#include "vorbis/codec.h"
#include "codec_internal.h"
#include "codebook.h"

/* ghost index: an arbitrary element position fixed before the call.  A
   postcondition about element g_k, proved for arbitrary g_k, holds for all. */
long g_k;

/* Vorbis I 9.2.1 ilog */
int ov_ilog(ogg_uint32_t v)
  __CPROVER_assigns()
  __CPROVER_ensures(0 <= RV && RV <= 32)
  __CPROVER_ensures(v == 0 ==> RV == 0)
  __CPROVER_ensures(v != 0 ==> (RV >= 1 && (v >> (RV - 1)) == 1));

/* scalar part of the static codebook invariant (Vorbis I 3.2.1) */
#define SBOOK_SCALARS(s) ((s)->dim >= 0 && (s)->dim <= 65535 && (s)->entries >= 0 && (s)->entries < (1L << 24) && \
   (s)->dim * (s)->entries < (1L << 24) && \
   ((s)->maptype == 0 || (s)->maptype == 1 || (s)->maptype == 2) && \
   ((s)->maptype != 0 ==> ((s)->q_quant >= 1 && (s)->q_quant <= 16 && ((s)->q_sequencep == 0 || (s)->q_sequencep == 1))))

/* number of quantlist elements the header carries */
#define SBOOK_MAP1_OK(s, qv) ((s)->entries < 1 ? (qv) == 0 : ((s)->dim == 0 ? (qv) == 0 : ((qv) >= 1 && (qv) <= (s)->entries)))

long _book_maptype1_quantvals(const static_codebook *b)
  __CPROVER_requires(FRESH(b, sizeof(*b)))
  __CPROVER_requires(b->entries >= 0 && b->entries < (1L << 24) && b->dim >= 1 && b->dim <= 65535)
  __CPROVER_assigns()
  __CPROVER_ensures(b->entries < 1 ==> RV == 0)
  __CPROVER_ensures(b->entries >= 1 ==> (RV >= 1 && RV <= b->entries));

void vorbis_staticbook_destroy(static_codebook *b)
  __CPROVER_requires(FRESH(b, sizeof(*b)))
  __CPROVER_requires(b->allocedp ==> ((b->quantlist == NULL || FRESH(b->quantlist, 0)) &&
                                      (b->lengthlist == NULL || FRESH(b->lengthlist, 0))))
  __CPROVER_assigns(b->allocedp: *b)
  __CPROVER_frees(b->allocedp: b, b->quantlist, b->lengthlist)
  /* a book in static storage (allocedp==0, the encoder's tables) is not touched */
  __CPROVER_ensures(!OLD(b->allocedp) ==> (b->allocedp == 0));

static_codebook *vorbis_staticbook_unpack(oggpack_buffer *opb)
  __CPROVER_requires(FRESH(opb, sizeof(*opb)) && INV_OPB(opb))
  __CPROVER_assigns(opb->endbyte, opb->endbit, opb->ptr, g_bits_read)
  __CPROVER_ensures(INV_OPB(opb))
  __CPROVER_ensures(RV != NULL ==> (FRESH(RV, sizeof(static_codebook)) && RV->allocedp == 1 && SBOOK_SCALARS(RV)))
  __CPROVER_ensures(RV != NULL ==> FRESH(RV->lengthlist, RV->entries))
  __CPROVER_ensures((RV != NULL && 0 <= g_k && g_k < RV->entries) ==>
                    (RV->lengthlist[g_k] >= 0 && RV->lengthlist[g_k] <= 32))
  __CPROVER_ensures((RV != NULL && RV->maptype == 0) ==> RV->quantlist == NULL)
  __CPROVER_ensures((RV != NULL && RV->maptype == 2) ==> FRESH(RV->quantlist, sizeof(long) * (unsigned long)(int)(RV->entries * RV->dim)))
  __CPROVER_ensures((RV != NULL && RV->maptype == 1 && (RV->dim == 0 || RV->entries == 0)) ==> FRESH(RV->quantlist, 0))
  __CPROVER_ensures((RV != NULL && RV->maptype == 1 && RV->dim >= 1 && RV->entries >= 1) ==> FRESH(RV->quantlist, sizeof(long)))
  ;

#endif

#ifdef VERIF_MAKE_WORDS
/* bounded unit: Huffman codeword assignment for n <= 3 lengths */
ogg_uint32_t *_make_words(char *l, long n, long sparsecount)
  __CPROVER_requires(n >= 1 && n <= 3 && FRESH(l, n))
  __CPROVER_requires(l[0] >= 0 && l[0] <= 3 && (n < 2 || (l[1] >= 0 && l[1] <= 3)) && (n < 3 || (l[2] >= 0 && l[2] <= 3)))
  /* sparsecount is 0 (encode side) or the number of used entries (decode side) */
  __CPROVER_requires(sparsecount == 0 || sparsecount == (l[0] > 0) + (n > 1 && l[1] > 0) + (n > 2 && l[2] > 0))
  __CPROVER_assigns()
  __CPROVER_ensures(RV == NULL || FRESH(RV, sizeof(ogg_uint32_t) * (sparsecount ? sparsecount : n)))
  /* a single used entry of length 1 is the sanctioned single-entry book */
  __CPROVER_ensures((n == 1 && l[0] == 1) ==> RV != NULL)
  /* two codewords of length 1 fill the tree exactly; three overpopulate it */
  __CPROVER_ensures((n == 2 && l[0] == 1 && l[1] == 1) ==> RV != NULL)
  __CPROVER_ensures((n == 3 && l[0] == 1 && l[1] == 1 && l[2] == 1) ==> RV == NULL)
  /* an underpopulated tree (lengths 1,2) is rejected */
  __CPROVER_ensures((n == 2 && l[0] == 1 && l[1] == 2) ==> RV == NULL);
#endif
