/* contract for _ov_getlap (lib/vorbisfile.c) - C03 / C19: the lap buffer fill never
   writes past lapsize floats of each of the link's channel rows, whichever of the
   three sources (pending PCM, further packets, the decoder's overlap half) supplies it */
#ifndef VERIF_VF_GETLAP_SPEC_H
#define VERIF_VF_GETLAP_SPEC_H
#include "vf_open.spec.h"
#define RW(p, n) __CPROVER_rw_ok((p), (n))
int nondet_int(void);
int g_chs;                       /* channels of the link */
int g_last_out;                  /* samples the last pcmout offered */
int g_delivered;                 /* pcmout has delivered samples during this call */
unsigned long g_copied;          /* floats copied into row 0 */
float **g_src;
/* CBMC's memcpy/memset with symbolic kilobyte sizes do not scale (DESIGN 12.2b): range checks + arbitrary destination */
void *memcpy(void *d, const void *s, size_t n) {
  __CPROVER_assert(n == 0 || (__CPROVER_r_ok(s, n) && __CPROVER_w_ok(d, n)), "memcpy source readable and destination writable for n bytes");
  __CPROVER_assert(n <= sizeof(float) * (size_t)g_last_out, "copies no more than the decoder offered");
  if (n > 0) __CPROVER_havoc_object(d);   /* whole row: over-approximation, values are not part of any obligation */
  return d;
}
void *memset(void *d, int c, size_t n) {
  __CPROVER_assert(n == 0 || __CPROVER_w_ok(d, n), "memset destination writable for n bytes");
  if (n > 0) __CPROVER_havoc_object(d);   /* whole row: over-approximation, values are not part of any obligation */
  return d;
}
/* decoder rows: allocated once by the harness (DFCC forbids allocation inside a loop
   under a loop contract); the number of valid floats in them is g_last_out */
#define DEC_MAXROW (8192 + 4096)
float **g_decrows;
/* unit blk_pcmout: samples pending (>= 0) and one row per channel holding them */
int vorbis_synthesis_pcmout(vorbis_dsp_state *v, float ***pcm) {
  int s = nondet_int(); __CPROVER_assume(s >= 0 && s <= 8192);
  if (pcm) *pcm = g_decrows;
  g_last_out = s; if (s > 0) g_delivered = 1;
  return s;
}
int vorbis_synthesis_read(vorbis_dsp_state *v, int samples) {
  __CPROVER_assert(samples >= 0 && samples <= g_last_out, "never consumes more than pcmout offered");
  return 0;
}
/* unit blk_lapout: n1+n-returned samples, contiguous.  ASSUMED here: 0 only while the
   decoder holds no position - impossible once pcmout has delivered samples in this call
   (the packet fetcher does not restart the decoder when it may not span links) */
int vorbis_synthesis_lapout(vorbis_dsp_state *v, float ***pcm) {
  int s = nondet_int(); __CPROVER_assume(s >= 0 && s <= DEC_MAXROW && (s > 0 || !g_delivered));
  *pcm = g_decrows; g_last_out = s;
  return s;
}
#endif
