static int _fetch_and_process_packet(OggVorbis_File *vf, ogg_packet *op_in, int readp, int spanp)
  __CPROVER_requires(op_in == NULL && readp == 1 && spanp == 0)     /* do NOT span links while collecting lap data */
  __CPROVER_assigns(vf->pcm_offset, vf->offset, vf->ready_state, vf->bittrack, vf->samptrack)
  __CPROVER_ensures(RV <= 1);
static void _ov_getlap(OggVorbis_File *vf, vorbis_info *vi, vorbis_dsp_state *vd, float **lappcm, int lapsize)
  __CPROVER_requires(vi->channels == g_chs && g_chs >= 1 && g_chs <= 2 && lapsize >= 0 && lapsize <= 4096 && g_delivered == 0)
  __CPROVER_assigns(vf->pcm_offset, vf->offset, vf->ready_state, vf->bittrack, vf->samptrack, g_last_out, g_delivered,
                    __CPROVER_object_whole(lappcm[0]); g_chs > 1: __CPROVER_object_whole(lappcm[1]))
  __CPROVER_ensures(1)
#ifdef VERIF_ENFORCE__ov_getlap
  REACH_ENSURES(g_delivered && lapsize == 32)
  REACH_ENSURES(!g_delivered && lapsize == 32)
#endif
  ;
