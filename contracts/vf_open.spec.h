/* contracts for the life-cycle functions of lib/vorbisfile.c
   (_seek_helper, _ov_open1, _ov_open2, ov_clear, ov_halfrate) - C03, C12, C13, C20 */
#ifndef VERIF_VF_OPEN_SPEC_H
#define VERIF_VF_OPEN_SPEC_H
#include "assumed/ogg.spec.h"
#include <stdio.h>
#include <errno.h>
/* see vf_read.spec.h: libc stdio references of the un-contracted ov_open/ov_fopen/ov_test wrappers */
size_t verif_fread(void *, size_t, size_t, FILE *);
int verif_fclose(FILE *);
long verif_ftell(FILE *);
int verif_fseek(FILE *, long, int);
int verif_fseeko(FILE *, off_t, int);
FILE *verif_fopen(const char *, const char *);
#define fread verif_fread
#define fclose verif_fclose
#define ftell verif_ftell
#define fseek verif_fseek
#define fseeko verif_fseeko
#define fopen verif_fopen
#include "vorbis/codec.h"
#include "vorbis/vorbisfile.h"

#define PARTOPEN 1
#define OPENED 2
#define STREAMSET 3
#define INITSET 4

/* ---- ghost ---------------------------------------------------------------- */
unsigned long g_close_calls;   /* invocations of the application's close callback */
unsigned long g_seek_calls;    /* invocations of the seek callback */
unsigned long g_sync_resets;   /* ogg_sync_reset calls */
unsigned long g_clear_calls;   /* ov_clear calls */

/* ---- application callbacks: body-less stubs obeying only these contracts --- */
int verif_seek_cb(void *datasource, ogg_int64_t offset, int whence)
  __CPROVER_assigns(g_seek_calls)
  __CPROVER_ensures((RV == 0 || RV == -1) && g_seek_calls == OLD(g_seek_calls) + 1);
int verif_close_cb(void *datasource)
  __CPROVER_assigns(g_close_calls)
  __CPROVER_ensures(g_close_calls == OLD(g_close_calls) + 1);

/* taking the addresses makes the stubs candidates for CBMC's function-pointer
   resolution of vf->callbacks.* calls */
int (*const verif_cb_seek_candidate)(void *, ogg_int64_t, int) = verif_seek_cb;
int (*const verif_cb_close_candidate)(void *) = verif_close_cb;

/* ---- assumed libogg ------------------------------------------------------ */
int ogg_sync_reset(ogg_sync_state *oy)
  __CPROVER_requires(FRESH(oy, sizeof(*oy)))
  __CPROVER_assigns(*oy, g_sync_resets)
  __CPROVER_ensures(g_sync_resets == OLD(g_sync_resets) + 1);

#define VF_ZERO(vf) ((vf)->datasource == NULL && (vf)->seekable == 0 && (vf)->links == 0 && (vf)->offsets == NULL && \
   (vf)->dataoffsets == NULL && (vf)->serialnos == NULL && (vf)->pcmlengths == NULL && (vf)->vi == NULL && \
   (vf)->vc == NULL && (vf)->ready_state == 0 && (vf)->callbacks.read_func == NULL && \
   (vf)->callbacks.seek_func == NULL && (vf)->callbacks.close_func == NULL && (vf)->callbacks.tell_func == NULL)

static int _seek_helper(OggVorbis_File *vf, ogg_int64_t offset)
  __CPROVER_requires(FRESH(vf, sizeof(*vf)))
  __CPROVER_requires(vf->callbacks.seek_func == NULL || vf->callbacks.seek_func == verif_seek_cb)
  __CPROVER_assigns(vf->offset, vf->oy, g_seek_calls, g_sync_resets)
  __CPROVER_ensures(RV == 0 || RV == OV_EREAD || RV == OV_EFAULT)
  __CPROVER_ensures(RV == OV_EFAULT <==> OLD(vf->datasource) == NULL)
  /* a failed seek leaves the recorded position and the framing state alone */
  __CPROVER_ensures(RV != 0 ==> (vf->offset == OLD(vf->offset) && g_sync_resets == OLD(g_sync_resets)))
  __CPROVER_ensures(RV == 0 ==> vf->offset == offset)
  __CPROVER_ensures((RV == 0 && OLD(vf->offset) != offset) ==> (g_seek_calls == OLD(g_seek_calls) + 1 && g_sync_resets == OLD(g_sync_resets) + 1))
  __CPROVER_ensures(OLD(vf->offset) == offset ==> (g_seek_calls == OLD(g_seek_calls)))
  __CPROVER_ensures((vf->datasource != NULL && vf->callbacks.seek_func == NULL && OLD(vf->offset) != offset) ==> RV == OV_EREAD);

/* the strong contract of ov_clear (enforced in unit vf_ov_clear, used at call sites) */
#ifdef VERIF_ENFORCE_ov_clear
/* callees of ov_clear (their own ownership contracts: C13 units of info.c / block.c; libogg assumed) */
int vorbis_block_clear(vorbis_block *vb) __CPROVER_assigns(*vb) __CPROVER_ensures(1);
void vorbis_dsp_clear(vorbis_dsp_state *v) __CPROVER_assigns(*v) __CPROVER_ensures(1);
int ogg_stream_clear(ogg_stream_state *os) __CPROVER_assigns(*os) __CPROVER_ensures(1);
int ogg_sync_clear(ogg_sync_state *oy) __CPROVER_assigns(*oy) __CPROVER_ensures(1);
unsigned long g_vi_clears, g_vc_clears;
void vorbis_info_clear(vorbis_info *vi) __CPROVER_assigns(*vi, g_vi_clears) __CPROVER_ensures(g_vi_clears == OLD(g_vi_clears) + 1);
void vorbis_comment_clear(vorbis_comment *vc) __CPROVER_assigns(*vc, g_vc_clears) __CPROVER_ensures(g_vc_clears == OLD(g_vc_clears) + 1);
#define TBL_OK(p, n) ((p) == NULL || FRESH((p), (n)))
#ifndef OVC_MAXLINKS
#define OVC_MAXLINKS 4
#endif
#endif
int ov_clear(OggVorbis_File *vf)
  __CPROVER_requires(vf == NULL || FRESH(vf, sizeof(*vf)))
  __CPROVER_requires(vf == NULL || vf->callbacks.close_func == NULL || vf->callbacks.close_func == verif_close_cb)
#ifdef VERIF_ENFORCE_ov_clear
  /* a handle in ANY life-cycle state (zeroed, half-open, open, after failures):
     every table pointer is NULL or owns its table; vi and vc come in a pair */
  __CPROVER_requires(vf == NULL || (vf->links >= 0 && vf->links <= OVC_MAXLINKS &&
                     ((vf->vi == NULL) == (vf->vc == NULL)) && (vf->vi == NULL || vf->links >= 1) &&
                     TBL_OK(vf->vi, sizeof(vorbis_info) * vf->links) && TBL_OK(vf->vc, sizeof(vorbis_comment) * vf->links) &&
                     TBL_OK(vf->dataoffsets, 8) && TBL_OK(vf->pcmlengths, 8) && TBL_OK(vf->serialnos, 8) && TBL_OK(vf->offsets, 8)))
  __CPROVER_requires(g_vi_clears == 0 && g_vc_clears == 0)
  __CPROVER_assigns(g_vi_clears, g_vc_clears)
  __CPROVER_assigns((vf != NULL && vf->vi != NULL): __CPROVER_object_whole(vf->vi), __CPROVER_object_whole(vf->vc))
  __CPROVER_frees(vf->vi, vf->vc, vf->dataoffsets, vf->pcmlengths, vf->serialnos, vf->offsets)
  /* every link's info and comments are cleared exactly once */
  __CPROVER_ensures((vf != NULL && OLD(vf->vi) != NULL) ==> (g_vi_clears == (unsigned long)OLD(vf->links) && g_vc_clears == g_vi_clears))
#endif
  __CPROVER_assigns(vf != NULL: *vf; g_close_calls, g_clear_calls)
#ifdef VERIF_ENFORCE_ov_clear
  __CPROVER_requires(vf != NULL)   /* ov_clear(NULL) is the trivial `return 0`; OLD() cannot be guarded */
  __CPROVER_ensures(RV == 0)
#else
  __CPROVER_ensures(RV == 0 && g_clear_calls == OLD(g_clear_calls) + 1)
#endif
  /* the close callback runs exactly once iff there is a data source and a callback */
  __CPROVER_ensures(g_close_calls == OLD(g_close_calls) +
                    ((vf != NULL && OLD(vf->datasource) != NULL && OLD(vf->callbacks.close_func) != NULL) ? 1 : 0))
  __CPROVER_ensures(vf != NULL ==> VF_ZERO(vf));

static int _open_seekable2(OggVorbis_File *vf)
  __CPROVER_requires(FRESH(vf, sizeof(*vf)))
  __CPROVER_assigns(vf->offset, vf->end, vf->oy, vf->links, vf->offsets, vf->dataoffsets, vf->serialnos, vf->pcmlengths,
                    vf->vi, vf->vc, vf->pcm_offset, vf->ready_state, vf->current_serialno, vf->current_link,
                    vf->bittrack, vf->samptrack, vf->os, vf->vd, vf->vb, g_seek_calls, g_sync_resets)
  __CPROVER_ensures(RV <= 0)
  /* never touches the data source handle or the callbacks */
  ;

static int _ov_open2(OggVorbis_File *vf)
  __CPROVER_requires(FRESH(vf, sizeof(*vf)))
  __CPROVER_requires(vf->callbacks.close_func == NULL || vf->callbacks.close_func == verif_close_cb)
  __CPROVER_assigns(*vf, g_close_calls, g_clear_calls, g_seek_calls, g_sync_resets)
  __CPROVER_ensures(OLD(vf->ready_state) != PARTOPEN ==> RV == OV_EINVAL)
  /* C03/C12/C13: a failed open leaves the handle cleared and the data source
     unclosed (the application still owns it) */
  __CPROVER_ensures(g_close_calls == OLD(g_close_calls))
  __CPROVER_ensures((OLD(vf->ready_state) == PARTOPEN && RV != 0) ==> (VF_ZERO(vf) && g_clear_calls == OLD(g_clear_calls) + 1))
  __CPROVER_ensures((OLD(vf->ready_state) == PARTOPEN && RV == 0) ==>
                    (vf->datasource == OLD(vf->datasource) && g_clear_calls == OLD(g_clear_calls) &&
                     (OLD(vf->seekable) ? 1 : vf->ready_state == STREAMSET)));
#endif
