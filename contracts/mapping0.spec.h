/* contracts for lib/mapping0.c (decode side): mapping0_unpack (C02, C01, C05, C13) */
#ifndef VERIF_MAPPING0_SPEC_H
#define VERIF_MAPPING0_SPEC_H
#include "assumed/ogg.spec.h"
#include "vorbis/codec.h"
#include "codec_internal.h"

long g_c, g_ch, g_s;      /* ghost coupling step / channel / submap */
#define ILOG8(x) ((x) >= 128 ? 8 : (x) >= 64 ? 7 : (x) >= 32 ? 6 : (x) >= 16 ? 5 : (x) >= 8 ? 4 : (x) >= 4 ? 3 : (x) >= 2 ? 2 : (x) >= 1 ? 1 : 0)
/* sharedbook.c; proved for all 2^32 arguments in its own unit (ilog) */
int ov_ilog(ogg_uint32_t v)
  __CPROVER_assigns()
  __CPROVER_ensures(RV >= 0 && RV <= 32)
  __CPROVER_ensures(v < 256 ==> RV == ILOG8(v));

#define M0 ((vorbis_info_mapping0 *)RV)
#define MCI ((codec_setup_info *)vi->codec_setup)
/* Vorbis I 4.2.4 (mappings): what the decoder relies on when it indexes the
   per-channel and per-submap tables */
static vorbis_info_mapping *mapping0_unpack(vorbis_info *vi, oggpack_buffer *opb)
  __CPROVER_requires(FRESH(vi, sizeof(*vi)) && FRESH(vi->codec_setup, sizeof(codec_setup_info)) && vi->channels <= 255)
  __CPROVER_requires(MCI->floors >= 1 && MCI->floors <= 64 && MCI->residues >= 1 && MCI->residues <= 64)
  __CPROVER_requires(FRESH(opb, sizeof(*opb)) && INV_OPB(opb))
  __CPROVER_assigns(opb->endbyte, opb->endbit, opb->ptr, g_bits_read)
  __CPROVER_ensures(RV == NULL || FRESH(RV, sizeof(vorbis_info_mapping0)))
  __CPROVER_ensures(vi->channels <= 0 ==> RV == NULL)
  __CPROVER_ensures(RV != NULL ==> (M0->submaps >= 1 && M0->submaps <= 16 && M0->coupling_steps >= 0 && M0->coupling_steps <= 256))
  /* every coupling step names two DIFFERENT channels that exist */
  __CPROVER_ensures((RV != NULL && 0 <= g_c && g_c < M0->coupling_steps) ==>
                    (M0->coupling_mag[g_c] >= 0 && M0->coupling_mag[g_c] < vi->channels &&
                     M0->coupling_ang[g_c] >= 0 && M0->coupling_ang[g_c] < vi->channels &&
                     M0->coupling_mag[g_c] != M0->coupling_ang[g_c]))
  /* every channel is routed to a submap that exists (submap 0 when there is only one) */
  __CPROVER_ensures((RV != NULL && 0 <= g_ch && g_ch < vi->channels) ==>
                    (M0->chmuxlist[g_ch] >= 0 && M0->chmuxlist[g_ch] < M0->submaps))
  /* every submap names a floor and a residue that exist */
  __CPROVER_ensures((RV != NULL && 0 <= g_s && g_s < M0->submaps) ==>
                    (M0->floorsubmap[g_s] >= 0 && M0->floorsubmap[g_s] < MCI->floors &&
                     M0->residuesubmap[g_s] >= 0 && M0->residuesubmap[g_s] < MCI->residues))
  /* bit layout on the accepted path: 1 [+4] + 1 [+8 + steps*2*ilog(ch-1)] + 2 [+ch*4] + submaps*24
     (a set submap flag followed by the value 0 also means one submap) */
#define M0_BITS(sub4) (1 + (sub4) + 1 + (M0->coupling_steps > 0 ? 8 + (unsigned long)M0->coupling_steps * 2 * ILOG8(vi->channels - 1) : 0) + 2 + \
                    (M0->submaps > 1 ? 4UL * vi->channels : 0) + 24UL * M0->submaps)
  __CPROVER_ensures(RV != NULL ==> (g_bits_read == OLD(g_bits_read) + M0_BITS(4) ||
                                    (M0->submaps == 1 && g_bits_read == OLD(g_bits_read) + M0_BITS(0))))
#ifdef VERIF_ENFORCE_mapping0_unpack
  REACH_ENSURES(RV != NULL && M0->submaps == 16 && M0->coupling_steps == 256 && vi->channels == 255)
  REACH_ENSURES(RV != NULL && M0->submaps == 1 && M0->coupling_steps == 0)
  REACH_ENSURES(RV == NULL && vi->channels > 0)
#endif
  ;
#undef M0
#endif
