/* contracts for the comment API of lib/info.c (property C16) */
#ifndef VERIF_COMMENT_SPEC_H
#define VERIF_COMMENT_SPEC_H
#include "common.h"
#include "vorbis/codec.h"

long g_k;  /* ghost index */

/* ASCII case folding as the property states it: only 'a'..'z' change, by
   exactly 32, for every int argument (no locale, no libc) */
static int _v_toupper(int c)
  __CPROVER_assigns()
  __CPROVER_ensures((c >= 'a' && c <= 'z') ? RV == c - 32 : RV == c);

#define FOLD(c) (((c) >= 'a' && (c) <= 'z') ? (c) - 32 : (c))

static int tagcompare(const char *s1, const char *s2, int n)
  __CPROVER_requires(n <= 0 || (FRESH(s1, n) && FRESH(s2, n)))
#ifdef VERIF_TAGCMP_BOUNDED
  __CPROVER_requires(n <= 4)
#endif
  __CPROVER_assigns()
  __CPROVER_ensures(RV == 0 || RV == 1)
  /* any position that differs after folding makes the strings unequal */
  __CPROVER_ensures((0 <= g_k && g_k < n && FOLD(s1[g_k]) != FOLD(s2[g_k])) ==> RV != 0)
#ifdef VERIF_TAGCMP_BOUNDED
  /* converse, expanded for n <= 4: equal after folding everywhere => 0 */
  __CPROVER_ensures(((n < 1 || FOLD(s1[0]) == FOLD(s2[0])) && (n < 2 || FOLD(s1[1]) == FOLD(s2[1])) &&
                     (n < 3 || FOLD(s1[2]) == FOLD(s2[2])) && (n < 4 || FOLD(s1[3]) == FOLD(s2[3])) && n <= 4) ==> RV == 0)
#endif
  ;

/* ---- specification functions for the queries (bounded units) ----------- */
/* does comment i start with <tag>= , compared case-insensitively (ASCII)? */
static int spec_match(const char *comment, const char *tag) {
  int k = 0;
  while (tag[k]) {
    if (FOLD(comment[k]) != FOLD(tag[k])) return 0;
    k++;
  }
  return comment[k] == '=';
}
static int spec_count(vorbis_comment *vc, const char *tag) {
  int i, n = 0;
  for (i = 0; i < vc->comments; i++)
    if (spec_match(vc->user_comments[i], tag)) n++;
  return n;
}
/* value part of the count-th match in insertion order, or NULL */
static char *spec_query(vorbis_comment *vc, const char *tag, int count) {
  int i, n = 0;
  int tl = 0;
  while (tag[tl]) tl++;
  for (i = 0; i < vc->comments; i++)
    if (spec_match(vc->user_comments[i], tag)) {
      if (n == count) return vc->user_comments[i] + tl + 1;
      n++;
    }
  return NULL;
}
#endif
