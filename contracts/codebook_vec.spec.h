/* contracts for the vector decoders of lib/codebook.c (C02: every store lands in
   the n floats handed in / every load in the book's value table; the decoders
   terminate because a value book has dim >= 1; C11/C18: frame) */
#ifndef VERIF_CODEBOOK_VEC_SPEC_H
#define VERIF_CODEBOOK_VEC_SPEC_H
#include "common.h"
#include "vorbis/codec.h"
#include "codec_internal.h"
#include "codebook.h"
#define RW(p, n) __CPROVER_rw_ok((p), (n))
int nondet_int(void); long nondet_long(void);
extern const void *__CPROVER_alloca_object;
unsigned long g_decodes;      /* codewords pulled from the packet */
/* decode_packed_entry_number: PROVED in unit cb_decode_entry (an entry of the book
   or -1); here only that consequence is used */
static long decode_packed_entry_number(codebook *book, oggpack_buffer *b)
  __CPROVER_requires(book->used_entries >= 1)
  __CPROVER_assigns(g_decodes)
  __CPROVER_ensures(RV >= -1 && RV < book->used_entries && g_decodes == OLD(g_decodes) + 1)
  ;

/* INV_BOOK (value part), as vorbis_book_init_decode leaves a book that passed the
   set-up checks (value book: dim >= 1; used_entries*dim floats in valuelist) */
#define VBOOK_OK(k) ((k)->used_entries >= 0 && (k)->used_entries <= (1L << 24) && (k)->dim >= 1 && (k)->dim <= 65535 && \
                     (k)->used_entries * (k)->dim <= (1L << 24))
#endif
