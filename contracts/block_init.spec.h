/* contract for _vds_shared_init (lib/block.c): what vorbis_synthesis_init /
   vorbis_analysis_init establish, and what a refused set-up leaves (C02, C13, C18, C20) */
#ifndef VERIF_BLOCK_INIT_SPEC_H
#define VERIF_BLOCK_INIT_SPEC_H
#include "assumed/ogg.spec.h"
#include "vorbis/codec.h"
#include "codec_internal.h"
#include "registry.h"
#include "mdct.h"
#include "psy.h"
#include "smallft.h"
#define RW(p, n) __CPROVER_rw_ok((p), (n))
#define VERIF_MAXCH 2
#define NB 2          /* at most 2 books / floors / residues / psy set-ups in the harness-built set-up */
int nondet_int(void);
long g_b, g_k; int g_j;
void *g_full0;   /* ci->fullbooks at entry (harness-set) */
#define ILOG14(x) ((x) >= 8192 ? 14 : (x) >= 4096 ? 13 : (x) >= 2048 ? 12 : (x) >= 1024 ? 11 : (x) >= 512 ? 10 : (x) >= 256 ? 9 : (x) >= 128 ? 8 : (x) >= 64 ? 7 : \
                   (x) >= 32 ? 6 : (x) >= 16 ? 5 : (x) >= 8 ? 4 : (x) >= 4 ? 3 : (x) >= 2 ? 2 : (x) >= 1 ? 1 : 0)
int ov_ilog(ogg_uint32_t v) __CPROVER_assigns() __CPROVER_ensures(v < 16384 ==> RV == ILOG14(v));
/* float table builders (not verified): they fill their own look-up only */
void mdct_init(mdct_lookup *lookup, int n) __CPROVER_requires(n >= 32 && n <= 8192 && RW(lookup, sizeof(*lookup))) __CPROVER_assigns(*lookup) __CPROVER_ensures(1);
void drft_init(drft_lookup *l, int n) __CPROVER_requires(n >= 64 && RW(l, sizeof(*l))) __CPROVER_assigns(*l) __CPROVER_ensures(1);
void _vp_psy_init(vorbis_look_psy *p, vorbis_info_psy *vi, vorbis_info_psy_global *gi, int n, long rate)
  __CPROVER_requires(RW(p, sizeof(*p)) && vi != NULL) __CPROVER_assigns(*p) __CPROVER_ensures(1);
/* sharedbook.c */
int vorbis_book_init_decode(codebook *dest, const static_codebook *source)
  __CPROVER_requires(RW(dest, sizeof(*dest)) && source != NULL) __CPROVER_assigns(*dest) __CPROVER_ensures(RV == 0 || RV == -1);
int vorbis_book_init_encode(codebook *dest, const static_codebook *source)
  __CPROVER_requires(RW(dest, sizeof(*dest))) __CPROVER_assigns(*dest) __CPROVER_ensures(RV == 0);
void vorbis_staticbook_destroy(static_codebook *b) __CPROVER_requires(b != NULL) __CPROVER_assigns() __CPROVER_ensures(1);
void vorbis_book_clear(codebook *b) __CPROVER_requires(RW(b, sizeof(*b))) __CPROVER_assigns(*b) __CPROVER_ensures(1);
/* the look builders behind the dispatch tables (stubs) */
vorbis_look_floor *verif_floor_look(vorbis_dsp_state *vd, vorbis_info_floor *i) { __CPROVER_assert(i != NULL, "floor parameters present"); return malloc(1); }
vorbis_look_residue *verif_res_look(vorbis_dsp_state *vd, vorbis_info_residue *i) { __CPROVER_assert(i != NULL, "residue parameters present"); return malloc(1); }
const vorbis_func_floor floor0_exportbundle = {0, 0, &verif_floor_look, 0, 0, 0, 0};
const vorbis_func_floor floor1_exportbundle = {0, 0, &verif_floor_look, 0, 0, 0, 0};
const vorbis_func_residue residue0_exportbundle = {0, 0, &verif_res_look, 0, 0, 0, 0, 0};
const vorbis_func_residue residue1_exportbundle = {0, 0, &verif_res_look, 0, 0, 0, 0, 0};
const vorbis_func_residue residue2_exportbundle = {0, 0, &verif_res_look, 0, 0, 0, 0, 0};

#define VD_ZERO(v) ((v)->analysisp == 0 && (v)->vi == NULL && (v)->pcm == NULL && (v)->pcmret == NULL && (v)->pcm_storage == 0 && \
   (v)->pcm_current == 0 && (v)->pcm_returned == 0 && (v)->backend_state == NULL && (v)->centerW == 0 && (v)->W == 0 && (v)->lW == 0)
/* vorbis_dsp_clear (same file; its own ownership contract is not proved here): leaves the state zeroed */
void vorbis_dsp_clear(vorbis_dsp_state *v) __CPROVER_requires(RW(v, sizeof(*v))) __CPROVER_assigns(*v) __CPROVER_ensures(VD_ZERO(v));

#define SCI ((codec_setup_info *)vi->codec_setup)
#define SB(v) ((private_state *)(v)->backend_state)
static int _vds_shared_init(vorbis_dsp_state *v, vorbis_info *vi, int encp)
  __CPROVER_requires(RW(v, sizeof(*v)) && RW(vi, sizeof(*vi)) && (vi->codec_setup == NULL || RW(vi->codec_setup, sizeof(codec_setup_info))))
  __CPROVER_requires(0 <= g_b && g_b < NB && 0 <= g_j && g_j < VERIF_MAXCH && 0 <= g_k)
  __CPROVER_assigns(*v)
  __CPROVER_assigns(vi->codec_setup != NULL: SCI->fullbooks, __CPROVER_object_whole(SCI->book_param))
  __CPROVER_ensures(RV == 0 || RV == 1 || RV == -1)
  /* C02: EVERY refusal leaves *v cleared, so that vorbis_dsp_clear (which
     vorbis_synthesis_init runs next) and any later clear are harmless */
  __CPROVER_ensures(RV != 0 ==> VD_ZERO(v))
  __CPROVER_ensures((vi->codec_setup == NULL || SCI->modes <= 0) ==> RV == 1)
  /* C02: a refused codebook set-up keeps NO decode books (a later init must fail
     again instead of running with empty books) and no static books */
  __CPROVER_ensures(RV == -1 ==> (SCI->fullbooks == NULL && (g_b < SCI->books ==> SCI->book_param[g_b] == NULL)))
  /* success: the decode-state invariant (INV_VD) */
  __CPROVER_ensures(RV == 0 ==> (v->vi == vi && v->pcm_storage == SCI->blocksizes[1] && v->W == 0 && v->lW == 0 &&
                                 v->centerW == SCI->blocksizes[1] / 2 && v->pcm_current == v->centerW &&
                                 SB(v)->modebits == ILOG14(SCI->modes - 1) && SB(v)->window[0] == ILOG14(SCI->blocksizes[0]) - 7 &&
                                 SB(v)->window[1] == ILOG14(SCI->blocksizes[1]) - 7 && v->analysisp == (encp ? 1 : 0) && SCI->fullbooks != NULL))
  /* C18 (reproducible output): one accumulator row of pcm_storage floats per channel, ZERO-filled */
  __CPROVER_ensures((RV == 0 && g_j < vi->channels) ==> RW(v->pcm[g_j], sizeof(float) * v->pcm_storage))
#ifdef VERIF_ZERO_ROWS
  __CPROVER_ensures((RV == 0 && g_j < vi->channels && g_k < v->pcm_storage) ==> v->pcm[g_j][g_k] == 0.0f)
#endif
  /* decode: the static books are handed over (released) once the decode books exist */
  __CPROVER_ensures((RV == 0 && !encp && g_full0 == NULL && g_b < SCI->books) ==> SCI->book_param[g_b] == NULL)
#ifdef VERIF_ENFORCE__vds_shared_init
  REACH_ENSURES(RV == 0 && !encp && SCI->books == 2 && vi->channels == 2)
  REACH_ENSURES(RV == 0 && encp)
  REACH_ENSURES(RV == -1 && SCI->books == 2)
  REACH_ENSURES(RV == 1)
#endif
  ;
#endif
