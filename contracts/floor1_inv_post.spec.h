/* included after lib/floor1.c */
/* render_line: ASSUMED for its table index (the Bresenham walk stays between its
   end points y0,y1 - a nonlinear fact no installed solver decides, DESIGN section 2);
   its preconditions are what this unit proves at the call site: a line has
   positive length (no division by zero), both ends inside the dB table, and the
   part that is drawn, [x0, min(n,x1)), lies inside d. */
static void render_line(int n, int x0, int x1, int y0, int y1, float *d)
  __CPROVER_requires(x0 >= 0 && x1 > x0 && y0 >= 0 && y0 <= 255 && y1 >= 0 && y1 <= 255)
  __CPROVER_requires(n == g_n && RW(d, sizeof(float) * g_n))
  __CPROVER_assigns(g_lines, __CPROVER_object_whole(d))
  __CPROVER_ensures(g_lines == OLD(g_lines) + 1);

static int floor1_inverse2(vorbis_block *vb, vorbis_look_floor *in, void *memo, float *out)
  __CPROVER_requires(g_lines == 0)
  __CPROVER_assigns(g_lines, __CPROVER_object_whole(out))
  __CPROVER_ensures(RV == (memo != NULL))
  __CPROVER_ensures(memo == NULL ==> g_lines == 0)
  /* at most one segment per post after the first */
  __CPROVER_ensures(g_lines <= ((vorbis_look_floor1 *)in)->posts - 1)
#ifdef VERIF_ENFORCE_floor1_inverse2
  REACH_ENSURES(RV == 1 && g_lines == 3 && ((vorbis_look_floor1 *)in)->posts == 7)
  REACH_ENSURES(RV == 1 && g_lines == 0)
  REACH_ENSURES(RV == 0)
  REACH_ENSURES(RV == 1 && ((vorbis_look_floor1 *)in)->n > g_n)
#endif
  ;
