/* included after lib/codebook.c */
long vorbis_book_decodev_add(codebook *book, float *a, oggpack_buffer *b, int n)
  __CPROVER_requires(RW(book, sizeof(*book)) && VBOOK_OK(book) && n >= 0 && n <= (1 << 24) && (n == 0 || RW(a, sizeof(float) * n)))
  __CPROVER_assigns(g_decodes; n > 0: __CPROVER_object_upto(a, sizeof(float) * n))
  __CPROVER_ensures(RV == 0 || RV == -1)
  __CPROVER_ensures(book->used_entries == 0 ==> (RV == 0 && g_decodes == OLD(g_decodes)))
  /* one codeword per dim values: never more codewords than values */
  __CPROVER_ensures(g_decodes - OLD(g_decodes) <= (unsigned long)n)
#ifdef VERIF_ENFORCE_vorbis_book_decodev_add
  REACH_ENSURES(RV == 0 && n == 7 && book->dim == 3 && g_decodes == 3)
  REACH_ENSURES(RV == -1)
#endif
  ;
long vorbis_book_decodev_set(codebook *book, float *a, oggpack_buffer *b, int n)
  __CPROVER_requires(RW(book, sizeof(*book)) && VBOOK_OK(book) && n >= 0 && n <= (1 << 24) && (n == 0 || RW(a, sizeof(float) * n)))
  __CPROVER_assigns(g_decodes; n > 0: __CPROVER_object_upto(a, sizeof(float) * n))
  __CPROVER_ensures(RV == 0 || RV == -1)
  __CPROVER_ensures(book->used_entries == 0 ==> (RV == 0 && g_decodes == OLD(g_decodes)))
  __CPROVER_ensures(g_decodes - OLD(g_decodes) <= (unsigned long)n)
#ifdef VERIF_ENFORCE_vorbis_book_decodev_set
  REACH_ENSURES(RV == 0 && n == 7 && book->dim == 3 && g_decodes == 3)
  REACH_ENSURES(RV == -1)
  REACH_ENSURES(RV == 0 && book->used_entries == 0 && n == 5)
#endif
  ;
