/* contract for ov_read_float (lib/vorbisfile.c) - C07, C20, C03 */
#ifndef VERIF_VF_READFLOAT_SPEC_H
#define VERIF_VF_READFLOAT_SPEC_H
#include "vf_open.spec.h"
/* ghost */
float **g_rows; long g_avail; long g_consumed; int g_read_calls, g_fetch_calls, g_hs; ogg_int64_t g_off0, g_off_last;
float **g_out;
int nondet_int(void);
/* ASSUMED decoder interface (proved in units blk_pcmout / blk_read): pcmout reports
   the pending count and hands out the row table; read consumes */
int vorbis_synthesis_pcmout(vorbis_dsp_state *v, float ***pcm) {
  int n = nondet_int();
  __CPROVER_assume(n >= 0 && n <= 8192);
  if (n > 0) { g_rows = malloc(sizeof(float *)); if (pcm) *pcm = g_rows; }
  g_avail = n;
  return n;
}
int vorbis_synthesis_read(vorbis_dsp_state *v, int samples)
  __CPROVER_assigns(v->pcm_returned, g_consumed, g_read_calls)
  __CPROVER_ensures(g_consumed == samples && g_read_calls == OLD(g_read_calls) + 1);
int vorbis_synthesis_halfrate_p(vorbis_info *vi) __CPROVER_assigns() __CPROVER_ensures((RV == 0 || RV == 1) && RV == g_hs);
static int _fetch_and_process_packet(OggVorbis_File *vf, ogg_packet *op_in, int readp, int spanp)
  __CPROVER_requires(op_in == NULL && readp == 1 && spanp == 1)
  __CPROVER_assigns(vf->offset, vf->pcm_offset, vf->ready_state, vf->current_serialno, vf->current_link, vf->bittrack, vf->samptrack,
                    vf->oy, vf->os, vf->vd, vf->vb, g_fetch_calls, g_off_last)
  __CPROVER_ensures(RV <= 1 && g_fetch_calls == OLD(g_fetch_calls) + 1 && g_off_last == vf->pcm_offset)
  __CPROVER_ensures(vf->ready_state >= OPENED && vf->ready_state <= INITSET && vf->pcm_offset >= -1 && vf->pcm_offset < (1LL << 62));

#define RF_INV(vf) ((vf)->ready_state >= OPENED && (vf)->ready_state <= INITSET && g_read_calls == 0 && \
   (vf)->pcm_offset == (g_fetch_calls > 0 ? g_off_last : g_off0) && g_fetch_calls >= 0 && g_out == 0)
long ov_read_float(OggVorbis_File *vf, float ***pcm_channels, int length, int *bitstream)
  __CPROVER_requires(FRESH(vf, sizeof(*vf)) && vf->links >= 1 && vf->links <= 4 && FRESH(vf->vi, sizeof(vorbis_info) * vf->links))
  __CPROVER_requires(vf->ready_state >= 0 && vf->ready_state <= INITSET && vf->pcm_offset >= -1 && vf->pcm_offset < (1LL << 62))
  __CPROVER_requires((pcm_channels == NULL || pcm_channels == &g_out) && (bitstream == NULL || FRESH(bitstream, sizeof(int))))
  __CPROVER_requires(g_read_calls == 0 && g_fetch_calls == 0 && g_off0 == vf->pcm_offset && (g_hs == 0 || g_hs == 1) && g_out == 0)
  __CPROVER_assigns(vf->offset, vf->pcm_offset, vf->ready_state, vf->current_serialno, vf->current_link, vf->bittrack, vf->samptrack,
                    vf->oy, vf->os, vf->vd, vf->vb, g_fetch_calls, g_off_last, g_rows, g_avail, g_consumed, g_read_calls)
  __CPROVER_assigns(pcm_channels != NULL: g_out)
  __CPROVER_assigns(bitstream != NULL: *bitstream)
  __CPROVER_ensures(OLD(vf->ready_state) < OPENED ==> RV == OV_EINVAL)
  /* samples returned: what is pending, at most `length`; exactly that many are consumed,
     and the reported position advances by exactly that many (doubled under half-rate) */
  __CPROVER_ensures((RV > 0 || g_read_calls == 1) ==> (g_read_calls == 1 && RV == g_consumed))
  __CPROVER_ensures(g_read_calls == 1 ==> RV == (g_avail > length ? length : g_avail))
  __CPROVER_ensures(g_read_calls == 1 ==> vf->pcm_offset == (g_fetch_calls > 0 ? g_off_last : g_off0) + ((ogg_int64_t)RV << g_hs))
  __CPROVER_ensures((RV > 0 && pcm_channels != NULL) ==> g_out == g_rows)
  __CPROVER_ensures((RV > 0 && bitstream != NULL) ==> *bitstream == vf->current_link)
  /* nothing is consumed and the position is not touched by the read itself otherwise */
  __CPROVER_ensures(g_read_calls == 0 ==> (RV <= 0 && vf->pcm_offset == (g_fetch_calls > 0 ? g_off_last : g_off0)))
#ifdef VERIF_ENFORCE_ov_read_float
  REACH_ENSURES(RV > 0 && g_fetch_calls == 1 && g_hs == 1 && RV < g_avail)
  REACH_ENSURES(RV == 0 && g_fetch_calls == 1)
  REACH_ENSURES(RV < 0 && RV != OV_EINVAL)
#endif
  ;
#endif
