/* contracts for lib/res0.c: res0_unpack (C02, C01, C13) */
#ifndef VERIF_RES0_SPEC_H
#define VERIF_RES0_SPEC_H
#include "assumed/ogg.spec.h"
#include "vorbis/codec.h"
#include "codec_internal.h"

#ifndef VERIF_MAXBOOKS
#define VERIF_MAXBOOKS 6
#endif
long g_p, g_b;    /* ghost partition / book-list slot */
#define POP8(v) ((int)(((v) & 1) + (((v) >> 1) & 1) + (((v) >> 2) & 1) + (((v) >> 3) & 1) + (((v) >> 4) & 1) + (((v) >> 5) & 1) + (((v) >> 6) & 1) + (((v) >> 7) & 1)))
/* bit count; proved for all 2^32 arguments in unit res0_icount */
static int icount(unsigned int v)
  __CPROVER_assigns()
  __CPROVER_ensures(RV >= 0 && RV <= 32 && (v < 256 ==> RV == POP8(v)));

#define RES0_HEAD_OK(info) ((info)->begin >= 0 && (info)->begin < (1L << 24) && (info)->end >= 0 && (info)->end < (1L << 24) && \
   (info)->grouping >= 1 && (info)->grouping <= (1 << 24) && (info)->partitions >= 1 && (info)->partitions <= 64 && \
   (info)->groupbook >= 0 && (info)->groupbook <= 255)
#define R0 ((vorbis_info_residue0 *)RV)
#define RCI ((codec_setup_info *)vi->codec_setup)
#define BOOK_OK(ci, k) ((k) >= 0 && (k) < (ci)->books && (ci)->book_param[k]->maptype != 0 && (ci)->book_param[k]->dim >= 1)
/* Vorbis I 8.6.1 (residue header) + the range checks the decoder relies on */
vorbis_info_residue *res0_unpack(vorbis_info *vi, oggpack_buffer *opb)
  __CPROVER_requires(__CPROVER_rw_ok(vi, sizeof(*vi)) && __CPROVER_rw_ok(vi->codec_setup, sizeof(codec_setup_info)))
  __CPROVER_requires(RCI->books >= 1 && RCI->books <= VERIF_MAXBOOKS)
  /* what vorbis_staticbook_unpack establishes for every book (unit codebook_unpack) */
#define SB_OK(ci, k) ((k) >= (ci)->books || ((ci)->book_param[k]->entries >= 0 && (ci)->book_param[k]->entries < (1L << 24) && \
                      (ci)->book_param[k]->dim >= 0 && (ci)->book_param[k]->dim < 65536))
  __CPROVER_requires(SB_OK(RCI, 0) && SB_OK(RCI, 1) && SB_OK(RCI, 2) && SB_OK(RCI, 3) && SB_OK(RCI, 4) && SB_OK(RCI, 5))
  __CPROVER_requires(FRESH(opb, sizeof(*opb)) && INV_OPB(opb))
  __CPROVER_assigns(opb->endbyte, opb->endbit, opb->ptr, g_bits_read)
  __CPROVER_ensures(RV == NULL || FRESH(RV, sizeof(vorbis_info_residue0)))
  __CPROVER_ensures(RV != NULL ==> (R0->begin >= 0 && R0->begin < (1L << 24) && R0->end >= 0 && R0->end < (1L << 24) &&
                                    R0->grouping >= 1 && R0->grouping <= (1 << 24) && R0->partitions >= 1 && R0->partitions <= 64))
  /* the classification book exists, has dimensions, and can express every
     partition word: 1 <= partvals <= its entry count */
  __CPROVER_ensures(RV != NULL ==> (R0->groupbook >= 0 && R0->groupbook < RCI->books && RCI->book_param[R0->groupbook]->dim >= 1 &&
                                    R0->partvals >= 1 && R0->partvals <= RCI->book_param[R0->groupbook]->entries))
  __CPROVER_ensures((RV != NULL && 0 <= g_p && g_p < R0->partitions) ==> (R0->secondstages[g_p] >= 0 && R0->secondstages[g_p] <= 255))
  /* every slot of the stage-book list names a book that exists; a slot that was
     transmitted (non-zero, or zero and checked) is a value book with dimensions */
  __CPROVER_ensures((RV != NULL && 0 <= g_b && g_b < 512) ==> (R0->booklist[g_b] >= 0 && R0->booklist[g_b] < RCI->books))
  __CPROVER_ensures((RV != NULL && 0 <= g_b && g_b < 512 && R0->booklist[g_b] != 0) ==> BOOK_OK(RCI, R0->booklist[g_b]))
#ifdef VERIF_ENFORCE_res0_unpack
  REACH_ENSURES(RV != NULL && R0->partitions == 64 && R0->booklist[300] == 2)
  REACH_ENSURES(RV != NULL && R0->partvals == 27 && R0->partitions == 3)
  REACH_ENSURES(RV == NULL)
#endif
  ;
#undef R0
#endif
