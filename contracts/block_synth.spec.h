/* contracts for the decode side of lib/block.c: vorbis_synthesis_blockin,
   _pcmout, _read, _restart, _lapout (properties C01, C02, C04, C07, C11, C19, C20) */
#ifndef VERIF_BLOCK_SYNTH_SPEC_H
#define VERIF_BLOCK_SYNTH_SPEC_H
#include "assumed/ogg.spec.h"
#include "vorbis/codec.h"
#include "codec_internal.h"

#ifndef VERIF_MAXCH
#define VERIF_MAXCH 2   /* shape (i) of DESIGN 4.1: every row a separate object; channels <= 2 */
#endif

/* ---- the decode-state invariant INV_VD (what _vds_shared_init + restart
   establish and every synthesis call must keep) ---------------------------- */
#define VD_CI(v) ((codec_setup_info *)(v)->vi->codec_setup)
#define VD_B(v) ((private_state *)(v)->backend_state)
#define VD_HS(v) (VD_CI(v)->halfrate_flag)
#define VD_N0(v) ((int)(VD_CI(v)->blocksizes[0] >> (VD_HS(v) + 1)))
#define VD_N1(v) ((int)(VD_CI(v)->blocksizes[1] >> (VD_HS(v) + 1)))
#define VD_NW(v, W) ((int)(VD_CI(v)->blocksizes[W] >> (VD_HS(v) + 1)))
#define IS_POW2(x) ((x) > 0 && (((x) & ((x)-1)) == 0))
#define CI_BS_OK(ci) ((ci)->blocksizes[0] >= 64 && (ci)->blocksizes[0] <= (ci)->blocksizes[1] && (ci)->blocksizes[1] <= 8192 && \
   IS_POW2((ci)->blocksizes[0]) && IS_POW2((ci)->blocksizes[1]) && \
   ((ci)->halfrate_flag == 0 || ((ci)->halfrate_flag == 1 && (ci)->blocksizes[0] >= 128)))
/* scalar part; the object graph (rows of pcm_storage floats) is built by the harness */
#define INV_VD_SCALARS(v) (CI_BS_OK(VD_CI(v)) && (v)->vi->channels >= 1 && (v)->vi->channels <= VERIF_MAXCH && \
   (v)->pcm_storage == VD_CI(v)->blocksizes[1] && ((v)->W == 0 || (v)->W == 1) && ((v)->lW == 0 || (v)->lW == 1) && \
   ((v)->centerW == 0 || (v)->centerW == VD_N1(v)) && \
   (v)->pcm_current >= -1 && (v)->pcm_current <= 2 * VD_N1(v) && \
   ((v)->pcm_returned == -1 || (v)->pcm_returned <= (v)->pcm_current))
/* NOTE: pcm_returned has no lower bound in the invariant: a first page whose
   granule position lies more than 2^31 samples before the running count makes
   `pcm_returned += extra>>hs` wrap the int (block.c:888) and can leave it
   negative.  Every consumer tests `pcm_returned < 0` / `> -1` before indexing
   (proved in the pcmout / lapout / read units), so this wedges the decoder
   (blockin answers OV_EINVAL until a restart) but is memory-safe. */

/* quarter-block sum: the number of (full-rate) samples a block finishes */
#define QS(v, a, b) (VD_CI(v)->blocksizes[a] / 4 + VD_CI(v)->blocksizes[b] / 4)

/* ---- ghost: entry values (set by the harness by assignment) -------------- */
int g_ret0, g_cur0, g_cW0, g_W0, g_lW0, g_eof0;
ogg_int64_t g_gp0, g_seq0, g_sc0;
int g_j; long g_k;          /* ghost channel / sample index into v->pcm */
unsigned g_oldbits;         /* bit pattern of v->pcm[g_j][g_k] at entry */
float g_oldf;               /* the same as a float */
float g_pk;                 /* vb->pcm[g_j][.] operand at entry (value postcondition) */
#define FBITS(p) (*(unsigned *)(p))

/* ASSUMED shape of window.c's table look-up (the real tables hold sin values
   CBMC cannot evaluate usefully; only their SIZE matters for memory safety):
   window number n is a table of 32<<n floats, n in [0,7].  A body-ful stub so
   that the returned pointer is assigned, and so that an out-of-range window
   number (e.g. window[0]-hs < 0) is a failed obligation at the call site. */
const float *g_win[8];
const float *_vorbis_window_get(int n) {
  __CPROVER_assert(n >= 0 && n <= 7, "window number in range 0..7");
  return g_win[n];
}

/* regions of v->pcm[j] that blockin may write (sample indices), from the entry state */
#define BI_PREVC(v) (g_cW0 ? 0 : VD_N1(v))
#define BI_THISC(v) (g_cW0 ? VD_N1(v) : 0)
#define BI_lW(v) (g_W0)            /* lW after the call = W before */
#define BI_LAP_LO(v, vb) (BI_PREVC(v) + ((BI_lW(v) && !(vb)->W) ? VD_N1(v) / 2 - VD_N0(v) / 2 : 0))
#define BI_LAP_LEN(v, vb) ((BI_lW(v) && (vb)->W) ? VD_N1(v) : ((!BI_lW(v) && (vb)->W) ? VD_N1(v) / 2 + VD_N0(v) / 2 : VD_N0(v)))
#define BI_IN_LAP(v, vb, k) ((k) >= BI_LAP_LO(v, vb) && (k) < BI_LAP_LO(v, vb) + BI_LAP_LEN(v, vb))
#define BI_IN_COPY(v, vb, k) ((k) >= BI_THISC(v) && (k) < BI_THISC(v) + VD_NW(v, (vb)->W))

/* position bookkeeping, written from the property statements:
   - a block finishes QS = bs[lW]/4 + bs[W]/4 full-rate samples, i.e. QS>>hs
     delivered samples (C01, C20); the first block after a restart delivers none;
   - the running granule position / sample count are forgotten on a sequence
     gap (C11) and otherwise advance by QS;
   - an end-of-stream packet whose granule position G lies before the running
     position strips (running-G)>>hs delivered samples, never more than are
     pending (C04: total length = last granule position);
   - a first page that is short trims the beginning instead (C04). */
#define BI_INSEQ(vb) (g_seq0 != -1 && g_seq0 + 1 == (vb)->sequence)
#define BI_GPIN(vb) (BI_INSEQ(vb) ? g_gp0 : -1)
#define BI_SCIN(vb) (BI_INSEQ(vb) ? g_sc0 : -1)
#define BI_Q(v, vb) (QS(v, g_W0, (vb)->W))
#define BI_SC1(v, vb) (BI_SCIN(vb) == -1 ? 0 : BI_SCIN(vb) + BI_Q(v, vb))
#define BI_URET(v, vb) ((vb)->pcm == NULL ? g_ret0 : (g_ret0 == -1 ? BI_THISC(v) : BI_PREVC(v)))
#define BI_UCUR(v, vb) ((vb)->pcm == NULL ? g_cur0 : (g_ret0 == -1 ? BI_THISC(v) : BI_PREVC(v) + (int)(BI_Q(v, vb) >> VD_HS(v))))
#define BI_PEND(v, vb) (((long)(BI_UCUR(v, vb) - BI_URET(v, vb))) << VD_HS(v))
#define MIN2(a, b) ((a) < (b) ? (a) : (b))
#define MAX2(a, b) ((a) > (b) ? (a) : (b))
/* case A: no running position */
#define BI_A_EXTRA(v, vb) (MAX2(0L, (long)(BI_SC1(v, vb) - (vb)->granulepos)))
#define BI_A_SHORT(v, vb) ((vb)->granulepos != -1 && BI_SC1(v, vb) > (vb)->granulepos)
/* case B: running position P = gp + Q */
#define BI_B_P(v, vb) (BI_GPIN(vb) + BI_Q(v, vb))
#define BI_B_TRIM(v, vb) ((vb)->granulepos != -1 && BI_B_P(v, vb) > (vb)->granulepos && (vb)->eofflag)
#define BI_B_EXTRA(v, vb) (MAX2(0L, MIN2((long)(BI_B_P(v, vb) - (vb)->granulepos), BI_PEND(v, vb))))

int vorbis_synthesis_blockin(vorbis_dsp_state *v, vorbis_block *vb)
  __CPROVER_requires(__CPROVER_rw_ok(v, sizeof(*v)) && __CPROVER_rw_ok(v->vi, sizeof(vorbis_info)) &&
                     __CPROVER_rw_ok(v->vi->codec_setup, sizeof(codec_setup_info)) &&
                     __CPROVER_rw_ok(v->backend_state, sizeof(private_state)))
  __CPROVER_requires(INV_VD_SCALARS(v))
  __CPROVER_requires(VD_B(v)->window[0] >= 0 && VD_B(v)->window[1] <= 7 &&
                     (32L << VD_B(v)->window[0]) == VD_CI(v)->blocksizes[0] / 2 &&
                     (32L << VD_B(v)->window[1]) == VD_CI(v)->blocksizes[1] / 2)
  __CPROVER_requires(vb == NULL || (__CPROVER_rw_ok(vb, sizeof(*vb)) && (vb->W == 0 || vb->W == 1)))
  /* position values are below 2^62 (no 64-bit wrap-around of granule arithmetic) */
  __CPROVER_requires(v->granulepos >= -1 && v->granulepos < (1LL << 61) && VD_B(v)->sample_count >= -1 &&
                     VD_B(v)->sample_count < (1LL << 61) && v->sequence >= -1 && v->sequence < (1LL << 62))
  __CPROVER_requires(vb == NULL || (vb->granulepos > -(1LL << 61) && vb->granulepos < (1LL << 61)))
  /* statistics counters (bits spent) do not wrap */
  __CPROVER_requires(v->glue_bits >= 0 && v->glue_bits < (1L << 62) && v->time_bits >= 0 && v->time_bits < (1L << 62) &&
                     v->floor_bits >= 0 && v->floor_bits < (1L << 62) && v->res_bits >= 0 && v->res_bits < (1L << 62))
  __CPROVER_requires(vb == NULL || (vb->glue_bits >= 0 && vb->glue_bits < (1L << 32) && vb->time_bits >= 0 && vb->time_bits < (1L << 32) &&
                                    vb->floor_bits >= 0 && vb->floor_bits < (1L << 32) && vb->res_bits >= 0 && vb->res_bits < (1L << 32)))
  __CPROVER_requires(g_ret0 == v->pcm_returned && g_cur0 == v->pcm_current && g_cW0 == v->centerW && g_W0 == v->W &&
                     g_lW0 == v->lW && g_gp0 == v->granulepos && g_seq0 == v->sequence && g_sc0 == VD_B(v)->sample_count &&
                     g_eof0 == v->eofflag)
  __CPROVER_requires(0 <= g_j && g_j < VERIF_MAXCH && 0 <= g_k && g_k < v->pcm_storage && g_oldbits == FBITS(&v->pcm[g_j][g_k]))
  __CPROVER_assigns(v->lW, v->W, v->nW, v->granulepos, v->sequence, v->glue_bits, v->time_bits, v->floor_bits, v->res_bits,
                    v->centerW, v->pcm_returned, v->pcm_current, v->eofflag, VD_B(v)->sample_count)
  __CPROVER_assigns(__CPROVER_object_whole(v->pcm[0]), __CPROVER_object_whole(v->pcm[1]))
  __CPROVER_ensures(RV == 0 || RV == OV_EINVAL)
  /* refused: a missing block, or samples still pending - and then nothing changes */
  __CPROVER_ensures(RV == OV_EINVAL <==> (vb == NULL || (g_cur0 > g_ret0 && g_ret0 != -1)))
  __CPROVER_ensures(RV == OV_EINVAL ==> (v->pcm_returned == g_ret0 && v->pcm_current == g_cur0 && v->centerW == g_cW0 &&
                                         v->W == g_W0 && v->lW == g_lW0 && v->granulepos == g_gp0 && v->sequence == g_seq0 &&
                                         VD_B(v)->sample_count == g_sc0 && FBITS(&v->pcm[g_j][g_k]) == g_oldbits))
  /* window history always advances, with or without PCM (track-only blocks) */
  __CPROVER_ensures(RV == 0 ==> (v->lW == g_W0 && v->W == vb->W && v->nW == -1 && v->sequence == vb->sequence))
  __CPROVER_ensures(RV == 0 ==> v->centerW == (vb->pcm == NULL ? g_cW0 : BI_PREVC(v)))
  __CPROVER_ensures(RV == 0 ==> (v->eofflag == (vb->eofflag ? 1 : g_eof0)))
  /* running sample count */
  __CPROVER_ensures(RV == 0 ==> VD_B(v)->sample_count == BI_SC1(v, vb))
  /* granule position */
  __CPROVER_ensures((RV == 0 && BI_GPIN(vb) == -1) ==> v->granulepos == vb->granulepos)
  __CPROVER_ensures((RV == 0 && BI_GPIN(vb) != -1) ==> v->granulepos == (vb->granulepos != -1 ? vb->granulepos : BI_B_P(v, vb)))
  /* samples made available: case A (no running position) */
  __CPROVER_ensures((RV == 0 && BI_GPIN(vb) == -1 && !BI_A_SHORT(v, vb)) ==>
                    (v->pcm_returned == BI_URET(v, vb) && v->pcm_current == BI_UCUR(v, vb)))
  __CPROVER_ensures((RV == 0 && BI_GPIN(vb) == -1 && BI_A_SHORT(v, vb) && vb->eofflag) ==>
                    (v->pcm_returned == BI_URET(v, vb) &&
                     v->pcm_current == BI_UCUR(v, vb) - (int)(MIN2(BI_A_EXTRA(v, vb), BI_PEND(v, vb)) >> VD_HS(v))))
  __CPROVER_ensures((RV == 0 && BI_GPIN(vb) == -1 && BI_A_SHORT(v, vb) && !vb->eofflag) ==> v->pcm_current == BI_UCUR(v, vb))
  __CPROVER_ensures((RV == 0 && BI_GPIN(vb) == -1 && BI_A_SHORT(v, vb) && !vb->eofflag &&
                     (BI_A_EXTRA(v, vb) >> VD_HS(v)) < (1L << 30)) ==>
                    v->pcm_returned == (int)MIN2((long)BI_URET(v, vb) + (BI_A_EXTRA(v, vb) >> VD_HS(v)), (long)BI_UCUR(v, vb)))
  /* case B (running position known) */
  __CPROVER_ensures((RV == 0 && BI_GPIN(vb) != -1) ==>
                    (v->pcm_returned == BI_URET(v, vb) &&
                     v->pcm_current == BI_UCUR(v, vb) - (BI_B_TRIM(v, vb) ? (int)(BI_B_EXTRA(v, vb) >> VD_HS(v)) : 0)))
  /* the invariant is kept */
  __CPROVER_ensures(INV_VD_SCALARS(v))
  __CPROVER_ensures((RV == 0 && vb->pcm != NULL && !(BI_GPIN(vb) == -1 && BI_A_SHORT(v, vb) && !vb->eofflag)) ==>
                    (v->pcm_returned >= 0 && v->pcm_returned <= v->pcm_current))
  /* frame inside the accumulator (C11): only the lapped span and the copied
     half of each channel are written; every other sample keeps its bits */
  __CPROVER_ensures((RV == 0 && vb->pcm == NULL) ==> FBITS(&v->pcm[g_j][g_k]) == g_oldbits)
  __CPROVER_ensures((RV == 0 && vb->pcm != NULL && !BI_IN_LAP(v, vb, g_k) && !BI_IN_COPY(v, vb, g_k)) ==>
                    FBITS(&v->pcm[g_j][g_k]) == g_oldbits)
#ifdef VERIF_ENFORCE_vorbis_synthesis_blockin
  REACH_ENSURES(RV == 0 && vb->pcm != NULL && g_ret0 == -1)
  REACH_ENSURES(RV == 0 && vb->pcm != NULL && g_ret0 != -1 && BI_GPIN(vb) != -1 && BI_B_TRIM(v, vb) && VD_HS(v) == 1 && v->pcm_current < BI_UCUR(v, vb))
  REACH_ENSURES(RV == 0 && BI_GPIN(vb) == -1 && BI_A_SHORT(v, vb) && !vb->eofflag && v->pcm_returned > BI_URET(v, vb))
  REACH_ENSURES(RV == 0 && vb->pcm == NULL)
  REACH_ENSURES(RV == OV_EINVAL && vb != NULL)
  REACH_ENSURES(RV == 0 && vb->pcm != NULL && g_W0 == 0 && vb->W == 1 && g_j == 1 && v->vi->channels == 2)
#endif
  ;


/* ---- vorbis_synthesis_pcmout / _read / _restart / _lapout ------------------ */
#define VD_OBJ(v) (__CPROVER_rw_ok(v, sizeof(*v)) && __CPROVER_rw_ok((v)->vi, sizeof(vorbis_info)) && \
                   __CPROVER_rw_ok((v)->vi->codec_setup, sizeof(codec_setup_info)) && \
                   __CPROVER_rw_ok((v)->backend_state, sizeof(private_state)))
float **g_out;   /* harness-allocated cell for the returned row table */

int vorbis_synthesis_pcmout(vorbis_dsp_state *v, float ***pcm)
  __CPROVER_requires(VD_OBJ(v) && INV_VD_SCALARS(v))
  __CPROVER_requires(pcm == NULL || pcm == &g_out)
  __CPROVER_requires(g_ret0 == v->pcm_returned && g_cur0 == v->pcm_current)
  __CPROVER_assigns(pcm != NULL: g_out)
  __CPROVER_assigns(__CPROVER_object_whole(v->pcmret))
  /* number of samples ready: exactly those between the read and write marks;
     nothing while the position is unset (after a restart) */
  __CPROVER_ensures(RV == ((g_ret0 > -1 && g_ret0 < g_cur0) ? g_cur0 - g_ret0 : 0))
  __CPROVER_ensures((RV > 0 && pcm != NULL) ==> (g_out == v->pcmret && 0 <= g_j && g_j < v->vi->channels ==>
                                                 v->pcmret[g_j] == v->pcm[g_j] + g_ret0))
  /* the rows handed out lie inside the accumulator */
  __CPROVER_ensures(RV > 0 ==> (g_ret0 + RV <= v->pcm_storage))
  __CPROVER_ensures(v->pcm_returned == g_ret0 && v->pcm_current == g_cur0)
#ifdef VERIF_ENFORCE_vorbis_synthesis_pcmout
  REACH_ENSURES(RV > 0 && pcm != NULL)
  REACH_ENSURES(RV == 0 && g_ret0 < -1)
#endif
  ;

int vorbis_synthesis_read(vorbis_dsp_state *v, int n)
  __CPROVER_requires(VD_OBJ(v) && INV_VD_SCALARS(v) && n >= 0 && n <= 16384)
  __CPROVER_requires(g_ret0 == v->pcm_returned && g_cur0 == v->pcm_current && g_ret0 > -(1 << 30))
  __CPROVER_assigns(v->pcm_returned)
  __CPROVER_ensures(RV == 0 || RV == OV_EINVAL)
  /* more than what is pending is refused and consumes nothing */
  __CPROVER_ensures(RV == OV_EINVAL <==> (n != 0 && g_ret0 + n > g_cur0))
  __CPROVER_ensures(RV == OV_EINVAL ==> v->pcm_returned == g_ret0)
  __CPROVER_ensures(RV == 0 ==> v->pcm_returned == g_ret0 + n)
  __CPROVER_ensures((g_ret0 >= 0) ==> INV_VD_SCALARS(v))
#ifdef VERIF_ENFORCE_vorbis_synthesis_read
  REACH_ENSURES(RV == 0 && n > 0)
  REACH_ENSURES(RV == OV_EINVAL)
#endif
  ;

int vorbis_synthesis_restart(vorbis_dsp_state *v)
  __CPROVER_requires(__CPROVER_rw_ok(v, sizeof(*v)))
  __CPROVER_requires(v->vi == NULL || __CPROVER_rw_ok(v->vi, sizeof(vorbis_info)))
  __CPROVER_requires(v->vi == NULL || v->vi->codec_setup == NULL ||
                     (__CPROVER_rw_ok(v->vi->codec_setup, sizeof(codec_setup_info)) && CI_BS_OK(VD_CI(v))))
  __CPROVER_requires(v->backend_state == NULL || __CPROVER_rw_ok(v->backend_state, sizeof(private_state)))
  __CPROVER_assigns(v->centerW, v->pcm_current, v->pcm_returned, v->granulepos, v->sequence, v->eofflag)
  __CPROVER_assigns(v->backend_state != NULL: VD_B(v)->sample_count)
  __CPROVER_ensures(RV == 0 || RV == -1)
  __CPROVER_ensures(RV == -1 <==> (v->backend_state == NULL || v->vi == NULL || v->vi->codec_setup == NULL))
  /* C11 / C07: the restarted decoder has no position, no sequence, no pending
     samples, and the next block is treated as a first block (pcm_returned == -1) */
  __CPROVER_ensures(RV == 0 ==> (v->pcm_returned == -1 && v->granulepos == -1 && v->sequence == -1 && v->eofflag == 0 &&
                                 VD_B(v)->sample_count == -1 && v->centerW == VD_N1(v) &&
                                 v->pcm_current >= 0 && v->pcm_current <= v->centerW))
#ifdef VERIF_ENFORCE_vorbis_synthesis_restart
  REACH_ENSURES(RV == 0 && VD_HS(v) == 1)
  REACH_ENSURES(RV == -1)
#endif
  ;

/* lapout: which samples of row j are exposed: [pcm_returned', n1+n), after the
   buffer has been made contiguous; stays inside the row */
int vorbis_synthesis_lapout(vorbis_dsp_state *v, float ***pcm)
  __CPROVER_requires(VD_OBJ(v) && INV_VD_SCALARS(v))
  __CPROVER_requires(pcm == NULL || pcm == &g_out)
  __CPROVER_requires(g_ret0 == v->pcm_returned && g_cur0 == v->pcm_current && g_cW0 == v->centerW && g_W0 == v->W && g_lW0 == v->lW)
  /* blockin's postcondition: read mark at or after the centre of the previous block */
  __CPROVER_requires(v->pcm_returned < 0 || (v->pcm_returned >= v->centerW && v->pcm_current <= v->centerW + VD_N1(v)))
  __CPROVER_assigns(v->pcm_current, v->pcm_returned, v->centerW)
  __CPROVER_assigns(pcm != NULL: g_out)
  __CPROVER_assigns(__CPROVER_object_whole(v->pcmret), __CPROVER_object_whole(v->pcm[0]), __CPROVER_object_whole(v->pcm[1]))
  __CPROVER_ensures(g_ret0 < 0 ==> (RV == 0 && v->pcm_returned == g_ret0 && v->pcm_current == g_cur0 && v->centerW == g_cW0))
#define LO_SHIFT(v) ((g_lW0 ^ g_W0) == 1 ? (VD_N1(v) - VD_N0(v)) / 2 : (g_lW0 == 0 ? VD_N1(v) - VD_N0(v) : 0))
  /* the marks move together: unwrap (-n1 if the buffer was wrapped) then shift
     by the short/long padding, so the number of pending samples is unchanged */
  __CPROVER_ensures(g_ret0 >= 0 ==> (v->centerW == 0 &&
                                      v->pcm_returned == g_ret0 - (g_cW0 == VD_N1(v) ? VD_N1(v) : 0) + LO_SHIFT(v) &&
                                      v->pcm_current == g_cur0 - (g_cW0 == VD_N1(v) ? VD_N1(v) : 0) + LO_SHIFT(v)))
  __CPROVER_ensures(g_ret0 >= 0 ==> (RV == VD_N1(v) + VD_NW(v, g_W0) - v->pcm_returned &&
                                      v->pcm_returned >= 0 && v->pcm_returned + RV <= v->pcm_storage))
  /* after a block WITH pcm went in (blockin's postcondition: write mark at most
     half of each of the two blocks past the centre) the count is not negative.
     (After a track-only block the window history moved but the marks did not:
     the count can then be negative - lapout itself stays in bounds, see note.) */
  __CPROVER_ensures((g_ret0 >= 0 && g_cur0 <= g_cW0 + (VD_NW(v, g_lW0) + VD_NW(v, g_W0)) / 2) ==> RV >= 0)
  __CPROVER_ensures((g_ret0 >= 0 && pcm != NULL) ==> (g_out == v->pcmret && (0 <= g_j && g_j < v->vi->channels ==>
                                                       v->pcmret[g_j] == v->pcm[g_j] + v->pcm_returned)))
#ifdef VERIF_ENFORCE_vorbis_synthesis_lapout
  REACH_ENSURES(g_ret0 >= 0 && g_cW0 != 0 && g_lW0 == 0 && g_W0 == 0 && VD_N1(v) > VD_N0(v))
  REACH_ENSURES(g_ret0 >= 0 && g_cW0 == 0 && g_lW0 == 1 && g_W0 == 0)
  REACH_ENSURES(g_ret0 < 0)
#endif
  ;


/* ---- the block-local arena: _vorbis_block_alloc / _vorbis_block_ripcord (C02, C11, C13) ---- */
#ifdef VERIF_UNIT_ARENA
#define WORD_ALIGN_V 8
long g_top0, g_alloc0, g_use0; void *g_store0; struct alloc_chain *g_reap0;
/* INV_VB (arena part): the store holds localalloc bytes, localtop of them handed out */
#define ARENA_OK(vb) ((vb)->localalloc >= 0 && (vb)->localalloc <= (1L << 30) && (vb)->localtop >= 0 && (vb)->localtop <= (vb)->localalloc && \
   (vb)->totaluse >= 0 && (vb)->totaluse <= (1L << 40) && ((vb)->localtop & (WORD_ALIGN_V - 1)) == 0 && \
   ((vb)->localstore == NULL ? (vb)->localalloc == 0 : __CPROVER_rw_ok((vb)->localstore, (vb)->localalloc)))
void *_vorbis_block_alloc(vorbis_block *vb, long bytes)
  __CPROVER_requires(__CPROVER_rw_ok(vb, sizeof(*vb)) && ARENA_OK(vb) && bytes >= 0 && bytes <= (1L << 28) && (bytes >= 1 || vb->localstore != NULL))   /* a zero-byte request on an empty arena returns NULL+0: no call site does that */
  __CPROVER_requires(g_top0 == vb->localtop && g_alloc0 == vb->localalloc && g_use0 == vb->totaluse && g_store0 == vb->localstore && g_reap0 == vb->reap)
  __CPROVER_assigns(vb->localtop, vb->localalloc, vb->localstore, vb->totaluse, vb->reap)
  /* the region handed out lies inside the (possibly new) store and holds `bytes` bytes */
  __CPROVER_ensures(RV != NULL && vb->localalloc >= 0 && vb->localalloc <= (1L << 30) && vb->localtop >= 0 && vb->localtop <= vb->localalloc &&
                    (vb->localtop & (WORD_ALIGN_V - 1)) == 0 && vb->localstore != NULL && __CPROVER_rw_ok(vb->localstore, vb->localalloc))
  __CPROVER_ensures((char *)RV >= (char *)vb->localstore && (char *)RV + bytes <= (char *)vb->localstore + vb->localtop)
  __CPROVER_ensures(__CPROVER_rw_ok(RV, bytes))
  /* earlier regions stay valid: either the same store grew its top, or the old
     store was parked on the reap chain (not freed) and accounted in totaluse */
  __CPROVER_ensures(vb->localstore == g_store0 ? (vb->reap == g_reap0 && vb->totaluse == g_use0 && vb->localtop >= g_top0)
                                               : ((g_store0 == NULL ? vb->reap == g_reap0 : (vb->reap != NULL && vb->reap->ptr == g_store0 && vb->reap->next == g_reap0 && vb->totaluse == g_use0 + g_top0 && __CPROVER_rw_ok(g_store0, g_alloc0)))))
#ifdef VERIF_ENFORCE__vorbis_block_alloc
  REACH_ENSURES(vb->localstore == g_store0 && bytes > 0)
  REACH_ENSURES(vb->localstore != g_store0 && g_store0 != NULL)
  REACH_ENSURES(g_store0 == NULL)
#endif
  ;
#endif

#endif
