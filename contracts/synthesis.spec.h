/* contracts for lib/synthesis.c */
#ifndef VERIF_SYNTHESIS_SPEC_H
#define VERIF_SYNTHESIS_SPEC_H
#include "assumed/ogg.spec.h"
#include "vorbis/codec.h"
#include "codec_internal.h"

#define CI(vi) ((codec_setup_info *)(vi)->codec_setup)

/* C20/C02: half-rate is refused (and nothing changes) when the short block is
   64 samples or less: the half-size window table index would be -1 */
int vorbis_synthesis_halfrate(vorbis_info *vi, int flag)
  __CPROVER_requires(FRESH(vi, sizeof(*vi)) && FRESH(vi->codec_setup, sizeof(codec_setup_info)))
  __CPROVER_assigns(CI(vi)->halfrate_flag)
  __CPROVER_ensures((OLD(CI(vi)->blocksizes[0]) <= 64 && flag) ==> (RV == -1 && CI(vi)->halfrate_flag == OLD(CI(vi)->halfrate_flag)))
  __CPROVER_ensures(!(OLD(CI(vi)->blocksizes[0]) <= 64 && flag) ==> (RV == 0 && CI(vi)->halfrate_flag == (flag ? 1 : 0)))
  /* the invariant the block layer relies on: halfrate_flag set => bs0 >= 128 */
  __CPROVER_ensures((RV == 0 && CI(vi)->halfrate_flag) ==> CI(vi)->blocksizes[0] > 64);

int vorbis_synthesis_halfrate_p(vorbis_info *vi)
  __CPROVER_requires(FRESH(vi, sizeof(*vi)) && FRESH(vi->codec_setup, sizeof(codec_setup_info)))
  __CPROVER_assigns()
  __CPROVER_ensures(RV == CI(vi)->halfrate_flag);
#endif
