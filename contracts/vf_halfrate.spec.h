/* contract for ov_halfrate (lib/vorbisfile.c) - C20 */
#ifndef VERIF_VF_HALFRATE_SPEC_H
#define VERIF_VF_HALFRATE_SPEC_H
#include "vf_open.spec.h"
#include "codec_internal.h"
#define CI(vi) ((codec_setup_info *)(vi)->codec_setup)
long g_k; /* ghost link index */

void vorbis_dsp_clear(vorbis_dsp_state *v)
  __CPROVER_requires(FRESH(v, sizeof(*v))) __CPROVER_assigns(*v) __CPROVER_ensures(1);
int vorbis_block_clear(vorbis_block *vb)
  __CPROVER_requires(FRESH(vb, sizeof(*vb))) __CPROVER_assigns(*vb) __CPROVER_ensures(1);

int ov_pcm_seek(OggVorbis_File *vf, ogg_int64_t pos)
  __CPROVER_requires(FRESH(vf, sizeof(*vf)))
  __CPROVER_assigns(vf->offset, vf->pcm_offset, vf->ready_state, vf->current_serialno, vf->current_link,
                    vf->bittrack, vf->samptrack, vf->oy, vf->os, vf->vd, vf->vb, g_seek_calls, g_sync_resets)
  __CPROVER_ensures(vf->ready_state >= OPENED && vf->ready_state <= INITSET && vf->pcm_offset >= -1);

/* same contract as in synthesis.spec.h (proved there by unit syn_halfrate) */
int vorbis_synthesis_halfrate(vorbis_info *vi, int flag)
  __CPROVER_requires(FRESH(vi, sizeof(*vi)) && FRESH(vi->codec_setup, sizeof(codec_setup_info)))
  __CPROVER_assigns(CI(vi)->halfrate_flag)
  __CPROVER_ensures((OLD(CI(vi)->blocksizes[0]) <= 64 && flag) ==> (RV == -1 && CI(vi)->halfrate_flag == OLD(CI(vi)->halfrate_flag)))
  __CPROVER_ensures(!(OLD(CI(vi)->blocksizes[0]) <= 64 && flag) ==> (RV == 0 && CI(vi)->halfrate_flag == (flag ? 1 : 0)));

#define HR_MAXLINKS 3
#define LINK_CI_FRESH(vf, l) ((vf)->links <= (l) || (FRESH((vf)->vi[l].codec_setup, sizeof(codec_setup_info)) && \
   (CI((vf)->vi + (l))->halfrate_flag == 0 || CI((vf)->vi + (l))->halfrate_flag == 1)))

int ov_halfrate(OggVorbis_File *vf, int flag)
  __CPROVER_requires(FRESH(vf, sizeof(*vf)) && vf->links >= 1 && vf->links <= HR_MAXLINKS)
  __CPROVER_requires(vf->ready_state >= OPENED && vf->ready_state <= INITSET && vf->pcm_offset >= -1)
  __CPROVER_requires(vf->vi == NULL || (FRESH(vf->vi, sizeof(vorbis_info) * vf->links) &&
                     LINK_CI_FRESH(vf, 0) && LINK_CI_FRESH(vf, 1) && LINK_CI_FRESH(vf, 2)))
  __CPROVER_requires(0 <= g_k && g_k < vf->links)
  __CPROVER_assigns(vf->offset, vf->pcm_offset, vf->ready_state, vf->current_serialno, vf->current_link,
                    vf->bittrack, vf->samptrack, vf->oy, vf->os, vf->vd, vf->vb, g_seek_calls, g_sync_resets)
  __CPROVER_assigns(vf->vi != NULL: CI(vf->vi)->halfrate_flag)
  __CPROVER_assigns(vf->vi != NULL && vf->links > 1: CI(vf->vi + 1)->halfrate_flag)
  __CPROVER_assigns(vf->vi != NULL && vf->links > 2: CI(vf->vi + 2)->halfrate_flag)
  __CPROVER_ensures(RV == 0 || RV == OV_EINVAL)
  __CPROVER_ensures(vf->vi == NULL ==> RV == OV_EINVAL)
  /* success: every link carries the requested setting */
  __CPROVER_ensures((vf->vi != NULL && RV == 0) ==> CI(vf->vi + g_k)->halfrate_flag == (flag ? 1 : 0))
  /* switching on refused: full-rate decoding is intact on EVERY link */
  __CPROVER_ensures((vf->vi != NULL && RV == OV_EINVAL && flag) ==> CI(vf->vi + g_k)->halfrate_flag == 0)
  /* switching off never fails */
  __CPROVER_ensures((vf->vi != NULL && !flag) ==> RV == 0)
  /* the decode machine is dumped: MDCT/window lookups are rebuilt for the new size */
  __CPROVER_ensures(vf->vi != NULL ==> vf->ready_state <= INITSET);
#endif
