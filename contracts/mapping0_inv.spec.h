/* contract for mapping0_inverse (lib/mapping0.c) - C01 4.3.2-4.3.5 (order of the
   decode steps), C02, C11, C18 */
#ifndef VERIF_MAPPING0_INV_SPEC_H
#define VERIF_MAPPING0_INV_SPEC_H
#include "assumed/ogg.spec.h"
#include "vorbis/codec.h"
#include "codec_internal.h"
#include "registry.h"
#include "mdct.h"
#define RW(p, n) __CPROVER_rw_ok((p), (n))
#define VERIF_MAXCH 2

/* ---- ghost ---------------------------------------------------------------- */
vorbis_block *g_vb; vorbis_info_mapping0 *g_info;
int g_ch;                         /* channels */
long g_n;                         /* block size */
long g_k;                         /* ghost spectral index < n/2 */
int g_f1_calls, g_f2_calls, g_res_calls, g_mdct_calls;
void *g_memo[VERIF_MAXCH];        /* what floor inverse1 returned per channel (NULL: channel unused) */
int nondet_int(void);
#define COUPLED (g_info->coupling_steps > 0)
/* Vorbis I 4.3.3: "if either [magnitude] or [angle] is marked used, both are" -
   with two channels every coupling step couples channels 0 and 1 */
#define EXPECT_NZ(c) ((g_ch == 2 && COUPLED) ? (g_memo[0] != NULL || g_memo[1] != NULL) : (g_memo[c] != NULL))

/* ASSUMED model of memset for this unit (CBMC 6.11's own model loses the written
   values under the contract instrumentation - measured): the n bytes become
   arbitrary, EXCEPT that a zero fill makes the float at the ghost index g_k
   exactly 0.0f when it lies inside the filled range.  Over-approximate
   everywhere else, exact at the one index the obligations talk about. */
void *memset(void *s, int c, size_t n) {
  __CPROVER_assert(n == 0 || __CPROVER_w_ok(s, n), "memset destination region writeable");
  if (n > 0) __CPROVER_havoc_slice(s, n);
  if (c == 0 && (size_t)(g_k + 1) * sizeof(float) <= n) __CPROVER_assume(((float *)s)[g_k] == 0.0f);
  return s;
}

/* ---- the back ends behind the dispatch tables: body-ful stubs that CHECK what
   mapping0_inverse hands them (their own proofs are separate units / assumed) ---- */
void *verif_floor_inverse1(vorbis_block *vb, vorbis_look_floor *look) {
  __CPROVER_assert(vb == g_vb && g_f1_calls < g_ch && g_res_calls == 0, "floor curve decode: once per channel, in channel order, before any residue");
  void *m = nondet_int() ? malloc(1) : NULL;
  g_memo[g_f1_calls++] = m;
  return m;
}
int verif_res_inverse(vorbis_block *vb, vorbis_look_residue *look, float **in, int *nonzero, int ch) {
  __CPROVER_assert(vb == g_vb && g_f1_calls == g_ch && g_f2_calls == 0, "residue decode after all floor curves, before curve synthesis");
  __CPROVER_assert(ch >= 0 && ch <= g_ch, "bundle size within the channel count");
  for (int k = 0; k < ch; k++) {
    int c = (in[k] == vb->pcm[0]) ? 0 : 1;
    __CPROVER_assert(in[k] == vb->pcm[c] && g_info->chmuxlist[c] == g_res_calls, "bundle holds exactly the vectors of this submap's channels");
    /* 4.3.4: residue vectors start from zero; the decoders ADD into them */
    __CPROVER_assert(in[k][g_k] == 0.0f, "residue vector zeroed before residue decode (every channel of the bundle)");
    __CPROVER_assert(nonzero[k] == (EXPECT_NZ(c) ? 1 : 0), "do-not-decode flag = channel unused after coupling propagation");
    __CPROVER_havoc_object(in[k]);
  }
  g_res_calls++;
  return 0;
}
int verif_floor_inverse2(vorbis_block *vb, vorbis_look_floor *look, void *memo, float *out) {
  __CPROVER_assert(vb == g_vb && g_res_calls == g_info->submaps && g_f2_calls < g_ch && g_mdct_calls == 0, "curve synthesis after residue and coupling, before the transform");
  __CPROVER_assert(out == vb->pcm[g_f2_calls] && memo == g_memo[g_f2_calls], "curve synthesis: channel's own vector and its own decoded curve");
  __CPROVER_havoc_object(out);
  g_f2_calls++;
  return 1;
}
void mdct_backward(mdct_lookup *init, float *in, float *out) {
  __CPROVER_assert(g_f2_calls == g_ch && g_mdct_calls < g_ch && in == g_vb->pcm[g_mdct_calls] && out == in, "inverse transform last, in place, once per channel");
  __CPROVER_assert(init == ((private_state *)g_vb->vd->backend_state)->transform[g_vb->W][0], "transform of this block size");
  __CPROVER_havoc_object(out);
  g_mdct_calls++;
}
/* ASSUMED: the dispatch tables' inverse slots (floor0.c:220, floor1.c:1088, res0.c:886-...) */
const vorbis_func_floor floor0_exportbundle = {0, 0, 0, 0, 0, &verif_floor_inverse1, &verif_floor_inverse2};
const vorbis_func_floor floor1_exportbundle = {0, 0, 0, 0, 0, &verif_floor_inverse1, &verif_floor_inverse2};
const vorbis_func_residue residue0_exportbundle = {0, 0, 0, 0, 0, 0, 0, &verif_res_inverse};
const vorbis_func_residue residue1_exportbundle = {0, 0, 0, 0, 0, 0, 0, &verif_res_inverse};
const vorbis_func_residue residue2_exportbundle = {0, 0, 0, 0, 0, 0, 0, &verif_res_inverse};

extern const void *__CPROVER_alloca_object;   /* CBMC-internal bookkeeping cell written by its alloca model */
#define MI_CI(vb) ((codec_setup_info *)(vb)->vd->vi->codec_setup)
static int mapping0_inverse(vorbis_block *vb, vorbis_info_mapping *l)
  __CPROVER_requires(vb == g_vb && l == (vorbis_info_mapping *)g_info && RW(vb, sizeof(*vb)) && RW(l, sizeof(vorbis_info_mapping0)))
  __CPROVER_requires(g_ch == vb->vd->vi->channels && g_ch >= 1 && g_ch <= VERIF_MAXCH && (vb->W == 0 || vb->W == 1))
  __CPROVER_requires(g_n == MI_CI(vb)->blocksizes[vb->W] && g_n >= 64 && g_n <= 8192 && 0 <= g_k && g_k < g_n / 2)
  __CPROVER_requires(g_f1_calls == 0 && g_f2_calls == 0 && g_res_calls == 0 && g_mdct_calls == 0)
  __CPROVER_assigns(vb->pcmend, g_f1_calls, g_f2_calls, g_res_calls, g_mdct_calls, __CPROVER_object_whole(g_memo), __CPROVER_alloca_object)
  __CPROVER_assigns(__CPROVER_object_whole(vb->pcm[0]), __CPROVER_object_whole(vb->pcm[1]))
  __CPROVER_ensures(RV == 0 && vb->pcmend == g_n)
  /* every step ran the right number of times (their order is asserted inside the stubs) */
  __CPROVER_ensures(g_f1_calls == g_ch && g_res_calls == g_info->submaps && g_f2_calls == g_ch && g_mdct_calls == g_ch)
#ifdef VERIF_ENFORCE_mapping0_inverse
  REACH_ENSURES(g_ch == 2 && g_info->coupling_steps == 3 && g_info->submaps == 2 && g_memo[0] == NULL && g_memo[1] != NULL)
  REACH_ENSURES(g_ch == 1 && g_info->submaps == 16)
#endif
  ;
#endif
