/* contracts for lib/info.c (attached to declarations; the definitions are the
   byte-for-byte /repo/lib/info.c included after this header) */
#ifndef VERIF_INFO_SPEC_H
#define VERIF_INFO_SPEC_H
#include "assumed/ogg.spec.h"
#include "vorbis/codec.h"
#include "codec_internal.h"

#define IS_POW2(x) ((x) > 0 && (((x) & ((x)-1)) == 0))
/* what the identification header establishes (Vorbis I 4.2.2) */
#define INV_IDHDR(vi, ci) ((vi)->version == 0 && (vi)->channels >= 1 && (vi)->channels <= 255 && (vi)->rate >= 1 && \
   (ci)->blocksizes[0] >= 64 && (ci)->blocksizes[0] <= (ci)->blocksizes[1] && (ci)->blocksizes[1] <= 8192 && \
   IS_POW2((ci)->blocksizes[0]) && IS_POW2((ci)->blocksizes[1]))

#define VI_ALLZERO(vi) ((vi)->version == 0 && (vi)->channels == 0 && (vi)->rate == 0 && (vi)->bitrate_upper == 0 && \
   (vi)->bitrate_nominal == 0 && (vi)->bitrate_lower == 0 && (vi)->bitrate_window == 0 && (vi)->codec_setup == NULL)

/* callee contract (weak form used at call sites; the strong ownership
   contract is enforced in its own unit, see clear.spec.h) */
void vorbis_info_clear(vorbis_info *vi)
  __CPROVER_requires(FRESH(vi, sizeof(*vi)))
  __CPROVER_requires(vi->codec_setup == NULL || FRESH(vi->codec_setup, sizeof(codec_setup_info)))
  __CPROVER_assigns(*vi)
  __CPROVER_frees(vi->codec_setup)
  __CPROVER_ensures(VI_ALLZERO(vi));

static int _vorbis_unpack_info(vorbis_info *vi, oggpack_buffer *opb)
  __CPROVER_requires(FRESH(vi, sizeof(*vi)))
  __CPROVER_requires(FRESH(opb, sizeof(*opb)) && INV_OPB(opb))
  __CPROVER_requires(vi->codec_setup == NULL || FRESH(vi->codec_setup, sizeof(codec_setup_info)))
  __CPROVER_assigns(*vi, opb->endbyte, opb->endbit, opb->ptr, g_bits_read)
  __CPROVER_assigns(vi->codec_setup != NULL: __CPROVER_object_whole(vi->codec_setup))
  __CPROVER_frees(vi->codec_setup)
  __CPROVER_ensures(RV == 0 || RV == OV_EFAULT || RV == OV_EVERSION || RV == OV_EBADHEADER)
  __CPROVER_ensures(RV == OV_EFAULT <==> OLD(vi->codec_setup) == NULL)
  __CPROVER_ensures(RV == 0 ==> (vi->codec_setup == OLD(vi->codec_setup) &&
                                 INV_IDHDR(vi, (codec_setup_info *)vi->codec_setup)))
  /* rejected header: everything cleared, nothing left allocated (4.2.2: any
     out-of-range field or missing framing bit makes the stream undecodable) */
  __CPROVER_ensures(RV == OV_EBADHEADER ==> VI_ALLZERO(vi))
  /* Vorbis I 4.2.2 field widths in order: 32 8 32 32 32 32 4 4 1 = 177 bits
     on the accepted path */
  __CPROVER_ensures(RV == 0 ==> g_bits_read == OLD(g_bits_read) + 177);

#endif
