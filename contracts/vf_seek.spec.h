/* contracts for the seek layer of lib/vorbisfile.c - C07, C08, C09, C04, C20, C03 */
#ifndef VERIF_VF_SEEK_SPEC_H
#define VERIF_VF_SEEK_SPEC_H
#include "vf_access.spec.h"

ogg_int64_t g_total;     /* ov_pcm_total(vf,-1) (constant during a seek) */
int g_hs;                /* half-rate flag reported for the handle */
extern OggVorbis_File *g_vf_for_assume;
unsigned long g_fetches;
int g_mon_armed;              /* position monitor (VERIF_SEEK_MONITOR): the last peeked packet was processed and carried a granule position */
ogg_int64_t g_peek_gp;        /* granule position of the last peeked packet */

/* ---- assumed libogg page/stream interface ------------------------------- */
int ogg_page_bos(const ogg_page *og) __CPROVER_assigns() __CPROVER_ensures(RV == 0 || RV > 0);
int ogg_page_serialno(const ogg_page *og) __CPROVER_assigns() __CPROVER_ensures(1);
ogg_int64_t ogg_page_granulepos(const ogg_page *og) __CPROVER_assigns() __CPROVER_ensures(RV >= -1 || RV < -1);
int ogg_stream_pagein(ogg_stream_state *os, ogg_page *og)
  __CPROVER_requires(FRESH(os, sizeof(*os))) __CPROVER_assigns(*os) __CPROVER_ensures(RV == 0 || RV == -1);
int ogg_stream_packetout(ogg_stream_state *os, ogg_packet *op)
  __CPROVER_requires(FRESH(os, sizeof(*os)) && (op == NULL || FRESH(op, sizeof(*op))))
  __CPROVER_assigns(*os) __CPROVER_assigns(op != NULL: *op)
  __CPROVER_ensures(RV == -1 || RV == 0 || RV == 1);
int ogg_stream_packetpeek(ogg_stream_state *os, ogg_packet *op)
  __CPROVER_requires(FRESH(os, sizeof(*os)) && (op == NULL || FRESH(op, sizeof(*op))))
  __CPROVER_assigns(*os, g_mon_armed, g_peek_gp) __CPROVER_assigns(op != NULL: *op)
  __CPROVER_ensures(g_mon_armed == 0 && (op != NULL ==> g_peek_gp == op->granulepos))
  __CPROVER_ensures(RV == -1 || RV == 0 || RV == 1)
  /* ASSUMPTION (stated in evidence): granule positions in the stream stay below 2^62 */
  __CPROVER_ensures(op != NULL ==> op->granulepos < (1LL << 62));
int ogg_stream_reset_serialno(ogg_stream_state *os, int serialno)
  __CPROVER_requires(FRESH(os, sizeof(*os))) __CPROVER_assigns(*os) __CPROVER_ensures(1);

/* ---- libvorbis callees (contracts proved or assumed in their own units) --- */
long vorbis_packet_blocksize(vorbis_info *vi, ogg_packet *op)
  __CPROVER_requires(FRESH(vi, sizeof(*vi)) && FRESH(op, sizeof(*op)))
  __CPROVER_assigns()
  /* an error code, or one of the two block sizes of the stream */
  __CPROVER_ensures(RV == OV_EFAULT || RV == OV_ENOTAUDIO || RV == OV_EBADPACKET || (RV >= 64 && RV <= 8192));
int vorbis_info_blocksize(vorbis_info *vi, int zo)
  __CPROVER_requires(FRESH(vi, sizeof(*vi))) __CPROVER_assigns() __CPROVER_ensures(RV == -1 || (RV >= 64 && RV <= 8192));
int vorbis_synthesis_trackonly(vorbis_block *vb, ogg_packet *op)
  __CPROVER_requires(FRESH(vb, sizeof(*vb)) && FRESH(op, sizeof(*op))) __CPROVER_assigns(*vb) __CPROVER_ensures(1);
int vorbis_synthesis_blockin(vorbis_dsp_state *v, vorbis_block *vb)
  __CPROVER_requires(FRESH(v, sizeof(*v)) && FRESH(vb, sizeof(*vb))) __CPROVER_assigns(*v, g_mon_armed)
  __CPROVER_ensures(g_mon_armed == (g_peek_gp > -1 ? 1 : 0));
int vorbis_synthesis_pcmout(vorbis_dsp_state *v, float ***pcm)
  __CPROVER_requires(FRESH(v, sizeof(*v)) && pcm == NULL) __CPROVER_assigns() __CPROVER_ensures(RV >= 0);
int vorbis_synthesis_read(vorbis_dsp_state *v, int samples)
  __CPROVER_requires(FRESH(v, sizeof(*v)) && samples >= 0) __CPROVER_assigns(v->pcm_returned) __CPROVER_ensures(1);
int vorbis_synthesis_halfrate_p(vorbis_info *vi)
  __CPROVER_requires(FRESH(vi, sizeof(*vi))) __CPROVER_assigns() __CPROVER_ensures(RV == g_hs)
#ifdef VERIF_ASSUME_POS_NOWRAP
  /* ASSUMPTION POINT (listed in evidence): machine arithmetic of the position
     counter is treated as mathematical - at the one place ov_pcm_seek calls
     this function (just before the sample-discard loop) the 64-bit position
     has not wrapped around: -1 <= pcm_offset < 2^62.  It cannot be derived
     without bounding the number of packets in a stream. */
  __CPROVER_ensures(g_vf_for_assume->pcm_offset >= -1 && g_vf_for_assume->pcm_offset < (1LL << 62))
#endif
  ;
OggVorbis_File *g_vf_for_assume;

/* C07/C08: after a skipped packet that carries a granule position G, the position is
   G minus the link's initial offset (never below 0) plus the lengths of the preceding
   links (written out for <= 3 preceding links: units with VF_MAXLINKS=4) */
#define SEEK_PL(vf, i) ((i) < (vf)->current_link ? (vf)->pcmlengths[2 * (i) + 1] : 0)
#define SEEK_EXPECT(vf) ((g_peek_gp - (vf)->pcmlengths[2 * (vf)->current_link] < 0 ? 0 : g_peek_gp - (vf)->pcmlengths[2 * (vf)->current_link]) + \
                         SEEK_PL(vf, 0) + SEEK_PL(vf, 1) + SEEK_PL(vf, 2))
#define VF_DECODE_ASSIGNS vf->offset, vf->pcm_offset, vf->ready_state, vf->current_serialno, vf->current_link, \
                          vf->bittrack, vf->samptrack, vf->oy, vf->os, vf->vd, vf->vb
#define VF_LINK_OK(vf) ((vf)->ready_state >= OPENED && (vf)->ready_state <= INITSET && (vf)->current_link >= 0 && (vf)->current_link < (vf)->links)
#define VF_STATE_OK(vf) ((vf)->ready_state >= OPENED && (vf)->ready_state <= INITSET && (vf)->current_link >= 0 && \
                         (vf)->current_link < (vf)->links && (vf)->pcm_offset >= -1 && (vf)->pcm_offset < (1LL << 61))

static ogg_int64_t _get_next_page(OggVorbis_File *vf, ogg_page *og, ogg_int64_t boundary)
  __CPROVER_requires(FRESH(vf, sizeof(*vf)) && FRESH(og, sizeof(*og)))
#ifdef VERIF_GNP_NO_OG
  /* goto-instrument 6.11 rejects '*og' when og is a local declared inside a
     contract-abstracted loop body (ov_pcm_seek); the page is only ever passed on
     to ogg_page_* / ogg_stream_pagein, whose contracts return arbitrary values,
     so leaving it out of the frame changes nothing the caller can observe */
  __CPROVER_assigns(vf->offset, vf->oy)
#else
  __CPROVER_assigns(vf->offset, vf->oy, *og)
#endif
  __CPROVER_ensures(RV == OV_FALSE || RV == OV_EOF || RV == OV_EREAD || RV >= 0);
static void _decode_clear(OggVorbis_File *vf)
  __CPROVER_requires(FRESH(vf, sizeof(*vf))) __CPROVER_assigns(vf->vd, vf->vb, vf->ready_state)
  __CPROVER_ensures(vf->ready_state == OPENED);
static int _make_decode_ready(OggVorbis_File *vf)
  __CPROVER_requires(FRESH(vf, sizeof(*vf)) && vf->ready_state >= OPENED)
  __CPROVER_assigns(vf->vd, vf->vb, vf->ready_state, vf->bittrack, vf->samptrack)
  __CPROVER_ensures(RV == 0 || RV == OV_EFAULT || RV == OV_EBADHEADER)
  __CPROVER_ensures(RV == 0 ==> vf->ready_state == INITSET)
  __CPROVER_ensures(RV != 0 ==> vf->ready_state == OLD(vf->ready_state));
static int _fetch_and_process_packet(OggVorbis_File *vf, ogg_packet *op_in, int readp, int spanp)
  __CPROVER_requires(FRESH(vf, sizeof(*vf)))
  __CPROVER_assigns(VF_DECODE_ASSIGNS, g_fetches)
  /* ASSUMPTION (finiteness of the data source): at most 2^40 packets are ever fetched */
  __CPROVER_ensures(RV <= 1 && VF_LINK_OK(vf) && vf->pcm_offset >= -1 && vf->pcm_offset < (1LL << 61) && g_fetches == OLD(g_fetches) + 1 && g_fetches <= (1UL << 40));

int ov_pcm_seek_page(OggVorbis_File *vf, ogg_int64_t pos)
  __CPROVER_requires(INV_VF(vf))
  __CPROVER_assigns(VF_DECODE_ASSIGNS, g_seek_calls, g_sync_resets)
  __CPROVER_ensures(RV <= 0)
  __CPROVER_ensures(OLD(vf->ready_state) < OPENED ==> RV == OV_EINVAL)
  __CPROVER_ensures((OLD(vf->ready_state) >= OPENED && !vf->seekable) ==> RV == OV_ENOSEEK)
  __CPROVER_ensures((OLD(vf->ready_state) >= OPENED && vf->seekable && (pos < 0 || pos > g_total)) ==> RV == OV_EINVAL)
  __CPROVER_ensures(RV == 0 ==> (VF_STATE_OK(vf) && vf->ready_state >= STREAMSET))
  __CPROVER_ensures(RV < 0 ==> (vf->ready_state <= OPENED || (vf->ready_state == OLD(vf->ready_state) && vf->pcm_offset == OLD(vf->pcm_offset))));

/* total length: used through the ghost so that it is one value for the whole call */
#ifdef VERIF_TOTAL_GHOST
ogg_int64_t ov_pcm_total(OggVorbis_File *vf, int i)
  __CPROVER_requires(FRESH(vf, sizeof(*vf)))
  __CPROVER_assigns()
  __CPROVER_ensures(i < 0 ==> RV == g_total);
#endif

int ov_pcm_seek(OggVorbis_File *vf, ogg_int64_t pos)
  __CPROVER_requires(INV_VF(vf) && (g_hs == 0 || g_hs == 1) && g_total >= 0 && g_total < (1LL << 61) && g_vf_for_assume == vf && g_fetches == 0 && g_mon_armed == 0)
  __CPROVER_requires(pos < (1LL << 62) && pos > -(1LL << 62))
  __CPROVER_assigns(VF_DECODE_ASSIGNS, g_seek_calls, g_sync_resets, g_fetches, g_mon_armed, g_peek_gp)
  __CPROVER_ensures(RV <= 0)
  /* success: the position is at or past the (half-rate rounded) target - the
     discard loop ran to completion (its termination is the decreases clause) */
  __CPROVER_ensures(RV == 0 ==> ((pos - vf->pcm_offset) >> g_hs) <= 0);

static ogg_int64_t _initial_pcmoffset(OggVorbis_File *vf, vorbis_info *vi)
  __CPROVER_requires(FRESH(vf, sizeof(*vf)) && FRESH(vi, sizeof(*vi)))
  __CPROVER_assigns(vf->offset, vf->oy, vf->os)
  /* C04/C09: the initial offset of a link is never negative (a stream whose
     first page is also its last, end-trimmed page would otherwise report a
     total that is too long) */
  __CPROVER_ensures(RV >= 0);
#endif
