/* ASSUMED executable model of libogg's bit packer (libogg is binary-only in
   this sandbox).  Used by the bounded round-trip units, where the real packer
   of /repo writes a header and the real unpacker of /repo reads it back, so
   the data has to flow through a concrete buffer.  LSb-first packing exactly
   as libogg 1.3.5 bitwise.c does it, with one difference: the buffer has a
   fixed capacity OGGM_CAP (libogg grows it with realloc); exceeding it is an
   assertion of the harness ("model capacity"), never silently wrong.
   tools/oggmodel_check.c compares this model bit for bit against the real
   libogg on random operation sequences (supporting fact, run by setup). */
#ifndef VERIF_OGGPACK_MODEL_H
#define VERIF_OGGPACK_MODEL_H
#include <stdlib.h>
#include <string.h>
#include <ogg/ogg.h>

#ifndef OGGM_CAP
#define OGGM_CAP 96
#endif

static const unsigned long oggm_mask[] = {
  0x00000000, 0x00000001, 0x00000003, 0x00000007, 0x0000000f, 0x0000001f, 0x0000003f, 0x0000007f, 0x000000ff,
  0x000001ff, 0x000003ff, 0x000007ff, 0x00000fff, 0x00001fff, 0x00003fff, 0x00007fff, 0x0000ffff, 0x0001ffff,
  0x0003ffff, 0x0007ffff, 0x000fffff, 0x001fffff, 0x003fffff, 0x007fffff, 0x00ffffff, 0x01ffffff, 0x03ffffff,
  0x07ffffff, 0x0fffffff, 0x1fffffff, 0x3fffffff, 0x7fffffff, 0xffffffff};

void oggpack_writeinit(oggpack_buffer *b) {
  memset(b, 0, sizeof(*b));
  b->ptr = b->buffer = (unsigned char *)calloc(OGGM_CAP, 1);
  b->storage = OGGM_CAP;
}

void oggpack_reset(oggpack_buffer *b) {
  if (!b->ptr) return;
  b->ptr = b->buffer;
  b->buffer[0] = 0;
  b->endbit = b->endbyte = 0;
}

void oggpack_writeclear(oggpack_buffer *b) {
  if (b->buffer) free(b->buffer);
  memset(b, 0, sizeof(*b));
}

void oggpack_write(oggpack_buffer *b, unsigned long value, int bits) {
  if (bits < 0 || bits > 32) goto err;
#ifdef __CPROVER
  __CPROVER_assert(b->endbyte < b->storage - 8, "model capacity (OGGM_CAP) suffices");
#endif
  if (b->endbyte >= b->storage - 8) goto err;
  value &= oggm_mask[bits];
  bits += b->endbit;
  b->ptr[0] |= value << b->endbit;
  if (bits >= 8) {
    b->ptr[1] = (unsigned char)(value >> (8 - b->endbit));
    if (bits >= 16) {
      b->ptr[2] = (unsigned char)(value >> (16 - b->endbit));
      if (bits >= 24) {
        b->ptr[3] = (unsigned char)(value >> (24 - b->endbit));
        if (bits >= 32) {
          if (b->endbit)
            b->ptr[4] = (unsigned char)(value >> (32 - b->endbit));
          else
            b->ptr[4] = 0;
        }
      }
    }
  }
  b->endbyte += bits / 8;
  b->ptr += bits / 8;
  b->endbit = bits & 7;
  return;
err:
  oggpack_writeclear(b);
}

void oggpack_readinit(oggpack_buffer *b, unsigned char *buf, int bytes) {
  memset(b, 0, sizeof(*b));
  b->buffer = b->ptr = buf;
  b->storage = bytes;
}

long oggpack_read(oggpack_buffer *b, int bits) {
  long ret;
  unsigned long m;
  if (bits < 0 || bits > 32) goto err;
  m = oggm_mask[bits];
  bits += b->endbit;
  if (b->endbyte >= b->storage - 4) {
    if (b->endbyte > b->storage - ((bits + 7) >> 3))
      goto overflow;
    else if (!bits)
      return 0L;
  }
  ret = b->ptr[0] >> b->endbit;
  if (bits > 8) {
    ret |= (long)b->ptr[1] << (8 - b->endbit);
    if (bits > 16) {
      ret |= (long)b->ptr[2] << (16 - b->endbit);
      if (bits > 24) {
        ret |= (long)b->ptr[3] << (24 - b->endbit);
        if (bits > 32 && b->endbit) {
          ret |= (long)b->ptr[4] << (32 - b->endbit);
        }
      }
    }
  }
  ret &= m;
  b->ptr += bits / 8;
  b->endbyte += bits / 8;
  b->endbit = bits & 7;
  return ret;
overflow:
err:
  b->ptr = NULL;
  b->endbyte = b->storage;
  b->endbit = 1;
  return -1L;
}

long oggpack_look(oggpack_buffer *b, int bits) {
  unsigned long ret;
  unsigned long m;
  if (bits < 0 || bits > 32) return -1;
  m = oggm_mask[bits];
  bits += b->endbit;
  if (b->endbyte >= b->storage - 4) {
    if (b->endbyte > b->storage - ((bits + 7) >> 3))
      return -1;
    else if (!bits)
      return 0L;
  }
  ret = b->ptr[0] >> b->endbit;
  if (bits > 8) {
    ret |= (unsigned long)b->ptr[1] << (8 - b->endbit);
    if (bits > 16) {
      ret |= (unsigned long)b->ptr[2] << (16 - b->endbit);
      if (bits > 24) {
        ret |= (unsigned long)b->ptr[3] << (24 - b->endbit);
        if (bits > 32 && b->endbit) ret |= (unsigned long)b->ptr[4] << (32 - b->endbit);
      }
    }
  }
  return m & ret;
}

void oggpack_adv(oggpack_buffer *b, int bits) {
  bits += b->endbit;
  if (b->endbyte > b->storage - ((bits + 7) >> 3)) goto overflow;
  b->ptr += bits / 8;
  b->endbyte += bits / 8;
  b->endbit = bits & 7;
  return;
overflow:
  b->ptr = NULL;
  b->endbyte = b->storage;
  b->endbit = 1;
}

long oggpack_bytes(oggpack_buffer *b) { return b->endbyte + (b->endbit + 7) / 8; }
long oggpack_bits(oggpack_buffer *b) { return b->endbyte * 8 + b->endbit; }
unsigned char *oggpack_get_buffer(oggpack_buffer *b) { return b->buffer; }

#endif
