/* ASSUMED contracts for libogg (binary only in this sandbox: headers +
   /usr/lib/x86_64-linux-gnu/libogg.so).  Written from libogg 1.3.5's
   documented behaviour; never proved here.  tools/oggmodel_check.c drives the
   real library and checks every ensures clause natively (supporting fact). */
#ifndef VERIF_OGG_SPEC_H
#define VERIF_OGG_SPEC_H
#include "common.h"

unsigned long g_bits_read;
unsigned long g_bits_written;

/* representation invariant of a read-side oggpack_buffer */
/* storage comes from oggpack_readinit(b,buf,int bytes): it never exceeds INT_MAX */
#define INV_OPB(b) ((b)->storage >= 0 && (b)->storage <= 0x7fffffffL && (b)->endbyte >= 0 && (b)->endbyte <= (b)->storage && \
                    (b)->endbit >= 0 && (b)->endbit < 8)

long oggpack_read(oggpack_buffer *b, int bits)
  __CPROVER_requires(FRESH(b, sizeof(*b)) && INV_OPB(b))
  __CPROVER_assigns(b->endbyte, b->endbit, b->ptr, g_bits_read)
  __CPROVER_ensures(RV >= -1)
  __CPROVER_ensures((bits < 0 || bits > 32) ==> RV == -1)
  __CPROVER_ensures((RV != -1 && bits >= 0 && bits < 32) ==> RV < (1L << bits))
  __CPROVER_ensures((RV != -1 && bits == 32) ==> RV <= 0xffffffffL)
  __CPROVER_ensures(INV_OPB(b) && b->endbyte >= OLD(b->endbyte))
  /* end of packet is sticky: once a read ran off the end (ptr==NULL) every
     later read fails */
  __CPROVER_ensures(OLD(b->ptr) == NULL ==> RV == -1)
  __CPROVER_ensures(RV == -1 ==> (b->ptr == NULL && b->endbyte == b->storage))
  __CPROVER_ensures(g_bits_read == OLD(g_bits_read) + bits);

long oggpack_look(oggpack_buffer *b, int bits)
  __CPROVER_requires(FRESH(b, sizeof(*b)) && INV_OPB(b))
  __CPROVER_assigns()
  __CPROVER_ensures(RV >= -1)
  __CPROVER_ensures((bits < 0 || bits > 32) ==> RV == -1)
  __CPROVER_ensures((RV != -1 && bits >= 0 && bits < 32) ==> RV < (1L << bits))
  __CPROVER_ensures((RV != -1 && bits == 32) ==> RV <= 0xffffffffL);

void oggpack_adv(oggpack_buffer *b, int bits)
  __CPROVER_requires(FRESH(b, sizeof(*b)) && INV_OPB(b))
  __CPROVER_assigns(b->endbyte, b->endbit, b->ptr, g_bits_read)
  __CPROVER_ensures(INV_OPB(b) && b->endbyte >= OLD(b->endbyte))
  __CPROVER_ensures(g_bits_read == OLD(g_bits_read) + bits);

long oggpack_bytes(oggpack_buffer *b)
  __CPROVER_requires(FRESH(b, sizeof(*b)))
  __CPROVER_assigns()
  __CPROVER_ensures(RV == b->endbyte + (b->endbit + 7) / 8);

void oggpack_readinit(oggpack_buffer *b, unsigned char *buf, int bytes)
  __CPROVER_requires(FRESH(b, sizeof(*b)))
  __CPROVER_assigns(*b)
  __CPROVER_ensures(b->storage == bytes && b->endbyte == 0 && b->endbit == 0 && b->buffer == buf && b->ptr == buf);

#endif
