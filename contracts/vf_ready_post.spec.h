static int _make_decode_ready(OggVorbis_File *vf)
  __CPROVER_requires(g_init_calls == 0 && g_binit_calls == 0)
  __CPROVER_assigns(vf->ready_state, vf->bittrack, vf->samptrack, g_init_vi, g_init_vd, g_init_calls, g_init_ret, g_binit_calls)
  __CPROVER_ensures(RV == 0 || RV == OV_EFAULT || RV == OV_EBADLINK)
  /* already set up: nothing happens; not yet on a link: OV_EFAULT, nothing happens */
  __CPROVER_ensures(OLD(vf->ready_state) > STREAMSET ==> (RV == 0 && g_init_calls == 0 && vf->ready_state == OLD(vf->ready_state)))
  __CPROVER_ensures(OLD(vf->ready_state) < STREAMSET ==> (RV == OV_EFAULT && g_init_calls == 0 && vf->ready_state == OLD(vf->ready_state)))
  /* on a link: the decoder is set up from the info of the CURRENT link - slot
     current_link of a seekable handle, the single slot of a streaming one */
  __CPROVER_ensures(OLD(vf->ready_state) == STREAMSET ==> (g_init_calls == 1 && g_init_vd == &vf->vd && g_init_vi == (vf->seekable ? vf->vi + vf->current_link : vf->vi)))
  __CPROVER_ensures((OLD(vf->ready_state) == STREAMSET && g_init_ret != 0) ==> (RV == OV_EBADLINK && vf->ready_state == STREAMSET && g_binit_calls == 0))
  __CPROVER_ensures((OLD(vf->ready_state) == STREAMSET && g_init_ret == 0) ==> (RV == 0 && vf->ready_state == INITSET && g_binit_calls == 1 && vf->bittrack == 0.0 && vf->samptrack == 0.0))
#ifdef VERIF_ENFORCE__make_decode_ready
  REACH_ENSURES(RV == 0 && g_init_calls == 1 && !vf->seekable && vf->current_link == 5)
  REACH_ENSURES(RV == 0 && g_init_calls == 1 && vf->seekable && vf->current_link == 2)
  REACH_ENSURES(RV == OV_EBADLINK)
  REACH_ENSURES(RV == OV_EFAULT)
#endif
  ;
static void _decode_clear(OggVorbis_File *vf)
  __CPROVER_requires(g_dspclr == 0 && g_blkclr == 0)
  __CPROVER_assigns(vf->ready_state, g_dspclr, g_blkclr)
  __CPROVER_ensures(vf->ready_state == OPENED && g_dspclr == 1 && g_blkclr == 1);
