/* contracts for the analysis side of lib/block.c: _preextrapolate_helper (C04, C15) */
#ifndef VERIF_BLOCK_ANA_SPEC_H
#define VERIF_BLOCK_ANA_SPEC_H
#include "assumed/ogg.spec.h"
#include "vorbis/codec.h"
#include "codec_internal.h"
#define RW(p, n) __CPROVER_rw_ok((p), (n))
#define VERIF_MAXCH 2
extern const void *__CPROVER_alloca_object;   /* CBMC-internal cell written by its alloca model */
/* lpc.c (float DSP, not verified): only the ranges they read and write matter here */
float vorbis_lpc_from_data(float *data, float *lpci, int n, int m)
  __CPROVER_requires(n >= 0 && m >= 0 && m <= 32 && RW(data, sizeof(float) * n) && RW(lpci, sizeof(float) * m))
  __CPROVER_assigns(__CPROVER_object_whole(lpci)) __CPROVER_ensures(1);
void vorbis_lpc_predict(float *coeff, float *prime, int m, float *data, long n)
  __CPROVER_requires(n >= 0 && m >= 0 && m <= 32 && RW(coeff, sizeof(float) * m) && (prime == NULL || RW(prime, sizeof(float) * m)) && RW(data, sizeof(float) * n))
  __CPROVER_assigns(__CPROVER_object_whole(data)) __CPROVER_ensures(1);

#ifndef VERIF_UNIT_WROTE
static void _preextrapolate_helper(vorbis_dsp_state *v)
  __CPROVER_requires(RW(v, sizeof(*v)) && RW(v->vi, sizeof(vorbis_info)) && v->vi->channels >= 1 && v->vi->channels <= VERIF_MAXCH)
  /* any amount of audio may have been submitted (C04: pieces of any sizes) */
  __CPROVER_requires(v->centerW >= 0 && v->centerW <= 4096 && v->pcm_current >= v->centerW && v->pcm_current <= v->pcm_storage && v->pcm_storage <= (1 << 28))
  __CPROVER_assigns(v->preextrapolate, __CPROVER_alloca_object, __CPROVER_object_whole(v->pcm[0]), __CPROVER_object_whole(v->pcm[1]))
  /* C04: the one-shot flag is set whether or not there was enough audio to extrapolate from */
  __CPROVER_ensures(v->preextrapolate == 1)
  __CPROVER_ensures(v->pcm_current == OLD(v->pcm_current) && v->centerW == OLD(v->centerW))
#ifdef VERIF_ENFORCE__preextrapolate_helper
  REACH_ENSURES(v->pcm_current - v->centerW > 32 && v->vi->channels == 2 && v->pcm_current > 3000000)
  REACH_ENSURES(v->pcm_current - v->centerW <= 32)
#endif
  ;
#endif

/* ---- vorbis_analysis_wrote (C04: the encoder's count of submitted samples) ---- */
#ifdef VERIF_UNIT_WROTE
int g_pre_calls;
long g_buf_req;   /* argument of the vorbis_analysis_buffer call made for the padding */
#define WCI(v) ((codec_setup_info *)(v)->vi->codec_setup)
static void _preextrapolate_helper(vorbis_dsp_state *v)
  __CPROVER_assigns(v->preextrapolate, g_pre_calls) __CPROVER_ensures(v->preextrapolate == 1 && g_pre_calls == OLD(g_pre_calls) + 1);
/* vorbis_analysis_buffer (same file) by contract: afterwards every row has room
   for pcm_current+vals samples (rows may have moved: realloc) */
float **vorbis_analysis_buffer(vorbis_dsp_state *v, int vals)
  __CPROVER_requires(vals >= 0 && vals <= 3 * 8192)
  __CPROVER_assigns(v->pcm_storage, g_buf_req, __CPROVER_object_whole(v->pcm), __CPROVER_object_whole(v->pcmret))
  __CPROVER_frees(v->pcm[0], v->pcm[1])
  __CPROVER_ensures(g_buf_req == vals && v->pcm_storage >= OLD(v->pcm_storage) && v->pcm_storage > v->pcm_current + vals &&
                    v->pcm_storage <= (1 << 29) &&
                    FRESH(v->pcm[0], sizeof(float) * v->pcm_storage) && FRESH(v->pcm[1], sizeof(float) * v->pcm_storage));
int vorbis_analysis_wrote(vorbis_dsp_state *v, int vals)
  __CPROVER_requires(vals <= (1 << 28))   /* pcm_current+vals is int arithmetic: no request beyond 2^28 samples */
  __CPROVER_requires(RW(v, sizeof(*v)) && RW(v->vi, sizeof(vorbis_info)) && RW(v->vi->codec_setup, sizeof(codec_setup_info)) &&
                     v->vi->channels >= 1 && v->vi->channels <= VERIF_MAXCH && g_pre_calls == 0)
  __CPROVER_requires(WCI(v)->blocksizes[1] >= 64 && WCI(v)->blocksizes[1] <= 8192 && v->centerW >= 0 && v->centerW <= 4096 &&
                     v->pcm_current >= v->centerW && v->pcm_current <= v->pcm_storage && v->pcm_storage <= (1 << 28) &&
                     (v->preextrapolate == 0 || v->preextrapolate == 1))
  __CPROVER_assigns(v->pcm_current, v->eofflag, v->preextrapolate, v->pcm_storage, g_pre_calls, g_buf_req, __CPROVER_alloca_object,
                    __CPROVER_object_whole(v->pcm), __CPROVER_object_whole(v->pcmret), __CPROVER_object_whole(v->pcm[0]), __CPROVER_object_whole(v->pcm[1]))
  __CPROVER_frees(v->pcm[0], v->pcm[1])
  __CPROVER_ensures(RV == 0 || RV == OV_EINVAL)
  /* more than the buffer handed out by vorbis_analysis_buffer: refused, nothing counted */
  __CPROVER_ensures((vals > 0 && OLD(v->pcm_current) + vals > OLD(v->pcm_storage)) ==> (RV == OV_EINVAL && v->pcm_current == OLD(v->pcm_current) && v->eofflag == OLD(v->eofflag)))
  /* otherwise exactly `vals` more samples are counted */
  __CPROVER_ensures((vals > 0 && OLD(v->pcm_current) + vals <= OLD(v->pcm_storage)) ==> (RV == 0 && v->pcm_current == OLD(v->pcm_current) + vals && v->eofflag == OLD(v->eofflag)))
  /* end of input: the end mark is the number of real samples; three long blocks of padding follow */
  __CPROVER_ensures(vals <= 0 ==> (RV == 0 && v->eofflag == OLD(v->pcm_current) && v->pcm_current == OLD(v->pcm_current) + 3 * WCI(v)->blocksizes[1] &&
                                   v->preextrapolate == 1 && g_buf_req == 3 * WCI(v)->blocksizes[1] && v->pcm_current <= v->pcm_storage))
  /* the start-of-stream extrapolation runs at most once */
  __CPROVER_ensures(g_pre_calls <= 1 && (OLD(v->preextrapolate) ==> g_pre_calls == 0))
#ifdef VERIF_ENFORCE_vorbis_analysis_wrote
  REACH_ENSURES(vals > 0 && RV == 0 && g_pre_calls == 1)
  REACH_ENSURES(vals <= 0 && OLD(v->pcm_current) <= 64 && v->vi->channels == 2)
  REACH_ENSURES(vals <= 0 && OLD(v->pcm_current) > 100000)
  REACH_ENSURES(RV == OV_EINVAL)
#endif
  ;
#endif


/* ---- vorbis_analysis_blockout (C04: granule positions; C05: window flags) ---- */
#ifdef VERIF_UNIT_BLOCKOUT
#include "envelope.h"
#include "psy.h"
int nondet_int(void);
long g_bp;          /* what the envelope search answered */
int g_rip, g_allocs;
/* envelope.c / psy.c (float analysis, not verified): the block-size decision is
   ARBITRARY here, so the postconditions hold for every sequence of short/long decisions */
long _ve_envelope_search(vorbis_dsp_state *v) __CPROVER_assigns(g_bp) __CPROVER_ensures((RV == -1 || RV == 0 || RV == 1) && g_bp == RV);
int _ve_envelope_mark(vorbis_dsp_state *v) __CPROVER_assigns() __CPROVER_ensures(RV == 0 || RV == 1);
void _ve_envelope_shift(envelope_lookup *e, long shift) __CPROVER_requires(shift > 0) __CPROVER_assigns() __CPROVER_ensures(1);
float _vp_ampmax_decay(float amp, vorbis_dsp_state *vd) __CPROVER_assigns() __CPROVER_ensures(1);
void _vorbis_block_ripcord(vorbis_block *vb) __CPROVER_assigns(vb->localtop, vb->reap, vb->totaluse, vb->localstore, vb->localalloc, g_rip) __CPROVER_ensures(g_rip == OLD(g_rip) + 1);
void *_vorbis_block_alloc(vorbis_block *vb, long bytes)   /* proved in unit blk_alloc: a region of `bytes` bytes */
  __CPROVER_requires(bytes >= 1 && bytes <= (1L << 26))
  __CPROVER_assigns(vb->localtop, vb->localalloc, vb->localstore, vb->totaluse, vb->reap, g_allocs)
  __CPROVER_ensures(FRESH(RV, bytes) && g_allocs == OLD(g_allocs) + 1);
/* ASSUMED models of memcpy / memmove for this unit: ranges must be readable /
   writable, destination bytes become arbitrary (the sample VALUES are not part of
   any obligation here; CBMC's own models do not scale to symbolic megabyte sizes) */
void *memcpy(void *d, const void *s_, size_t n) { __CPROVER_assert(n == 0 || (__CPROVER_r_ok(s_, n) && __CPROVER_w_ok(d, n)), "memcpy ranges valid"); if (n) __CPROVER_havoc_slice(d, n); return d; }
void *memmove(void *d, const void *s_, size_t n) { __CPROVER_assert(n == 0 || (__CPROVER_r_ok(s_, n) && __CPROVER_w_ok(d, n)), "memmove ranges valid"); if (n) __CPROVER_havoc_slice(d, n); return d; }

#define BCI(v) ((codec_setup_info *)(v)->vi->codec_setup)
#define HALF1(v) (BCI(v)->blocksizes[1] / 2)
/* INV on the encode side: the current block is always centred at bs1/2 in the
   buffer (analysis_init and every advance establish it); the end mark, once set,
   lies beyond the centre of the block being produced unless this is the last one */
int vorbis_analysis_blockout(vorbis_dsp_state *v, vorbis_block *vb)
  __CPROVER_requires(RW(v, sizeof(*v)) && RW(vb, sizeof(*vb)) && RW(v->vi, sizeof(vorbis_info)) && RW(v->vi->codec_setup, sizeof(codec_setup_info)) &&
                     RW(v->backend_state, sizeof(private_state)) && RW(((private_state *)v->backend_state)->psy_g_look, sizeof(vorbis_look_psy_global)) &&
                     RW(vb->internal, sizeof(vorbis_block_internal)))
  __CPROVER_requires(v->vi->channels >= 1 && v->vi->channels <= VERIF_MAXCH)
  __CPROVER_requires(BCI(v)->blocksizes[0] >= 64 && BCI(v)->blocksizes[0] <= BCI(v)->blocksizes[1] && BCI(v)->blocksizes[1] <= 8192 &&
                     ((BCI(v)->blocksizes[0] & (BCI(v)->blocksizes[0] - 1)) == 0) && ((BCI(v)->blocksizes[1] & (BCI(v)->blocksizes[1] - 1)) == 0))
  __CPROVER_requires((v->W == 0 || v->W == 1) && (v->lW == 0 || v->lW == 1) && v->centerW == HALF1(v) &&
                     v->pcm_current >= v->centerW && v->pcm_current <= v->pcm_storage && v->pcm_storage <= (1 << 28) &&
                     v->pcm_storage >= BCI(v)->blocksizes[1] &&   /* _vds_shared_init; vorbis_analysis_buffer only grows it */
                     v->eofflag >= -1 && v->eofflag <= v->pcm_current && v->granulepos >= 0 && v->granulepos < (1LL << 61) &&
                     v->sequence >= 0 && v->sequence < (1LL << 61) && g_rip == 0 && g_allocs == 0)
  __CPROVER_assigns(v->nW, v->lW, v->W, v->centerW, v->pcm_current, v->eofflag, v->granulepos, v->sequence, g_bp, g_rip, g_allocs,
                    *vb, __CPROVER_object_whole(vb->internal), __CPROVER_object_whole(((private_state *)v->backend_state)->psy_g_look),
                    __CPROVER_object_whole(v->pcm[0]), __CPROVER_object_whole(v->pcm[1]))
  __CPROVER_ensures(RV == 0 || RV == 1)
  /* nothing before the start-of-stream preparation, nothing after the last block, and no block => no state change */
  __CPROVER_ensures((OLD(v->preextrapolate) == 0 || OLD(v->eofflag) == -1) ==> RV == 0)
  __CPROVER_ensures(RV == 0 ==> (v->granulepos == OLD(v->granulepos) && v->sequence == OLD(v->sequence) && v->centerW == OLD(v->centerW) &&
                                 v->pcm_current == OLD(v->pcm_current) && v->eofflag == OLD(v->eofflag) && v->W == OLD(v->W) && v->lW == OLD(v->lW) && g_rip == 0))
  /* the block: the position BEFORE the advance, consecutive sequence numbers, the
     window flags of the state (C05: a block's flags are its neighbours' sizes) */
  __CPROVER_ensures(RV == 1 ==> (vb->granulepos == OLD(v->granulepos) && vb->sequence == OLD(v->sequence) && v->sequence == OLD(v->sequence) + 1 &&
                                 vb->W == OLD(v->W) && vb->lW == OLD(v->lW) && vb->nW == v->nW && (v->nW == 0 || v->nW == 1) &&
                                 vb->pcmend == BCI(v)->blocksizes[OLD(v->W)] && g_rip == 1 && vb->vd == v))
  /* the last block: the one whose centre has reached the end mark; flagged, and then nothing more */
  __CPROVER_ensures((RV == 1 && OLD(v->eofflag) > 0 && OLD(v->centerW) >= OLD(v->eofflag)) ==> (vb->eofflag == 1 && v->eofflag == -1 && v->granulepos == OLD(v->granulepos)))
  /* otherwise the window history chains (next block's lW is this block's W, its W this block's nW),
     the centre returns to bs1/2, and the granule position advances by the movement, except that
     it never counts the padding after the end mark: it stops at the end mark's position */
#define MOVE(v) (OLD(v->centerW) + BCI(v)->blocksizes[OLD(v->W)] / 4 + BCI(v)->blocksizes[v->nW] / 4 - HALF1(v))
  __CPROVER_ensures((RV == 1 && !(OLD(v->eofflag) > 0 && OLD(v->centerW) >= OLD(v->eofflag))) ==>
                    (v->lW == OLD(v->W) && v->W == v->nW && v->centerW == HALF1(v) && v->pcm_current == OLD(v->pcm_current) - MOVE(v) &&
                     (OLD(v->eofflag) == 0 ? (v->eofflag == 0 && v->granulepos == OLD(v->granulepos) + MOVE(v))
                                           : (v->eofflag == OLD(v->eofflag) - MOVE(v) &&
                                              v->granulepos == (v->centerW >= v->eofflag ? OLD(v->granulepos) + (OLD(v->eofflag) - OLD(v->centerW))
                                                                                          : OLD(v->granulepos) + MOVE(v))))))
  /* granule positions never decrease */
  __CPROVER_ensures(v->granulepos >= OLD(v->granulepos))
#ifdef VERIF_ENFORCE_vorbis_analysis_blockout
  REACH_ENSURES(RV == 1 && vb->eofflag == 1)
  REACH_ENSURES(RV == 1 && OLD(v->eofflag) > 0 && v->eofflag > 0 && v->centerW >= v->eofflag)
  REACH_ENSURES(RV == 1 && OLD(v->eofflag) == 0 && OLD(v->W) == 1 && v->nW == 0 && v->vi->channels == 2)
  REACH_ENSURES(RV == 0 && OLD(v->preextrapolate) == 1 && OLD(v->eofflag) == 0)
#endif
  ;
#endif

#endif
