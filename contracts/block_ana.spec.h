/* contracts for the analysis side of lib/block.c: _preextrapolate_helper (C04, C15) */
#ifndef VERIF_BLOCK_ANA_SPEC_H
#define VERIF_BLOCK_ANA_SPEC_H
#include "assumed/ogg.spec.h"
#include "vorbis/codec.h"
#include "codec_internal.h"
#define RW(p, n) __CPROVER_rw_ok((p), (n))
#define VERIF_MAXCH 2
/* lpc.c (float DSP, not verified): only the ranges they read and write matter here */
float vorbis_lpc_from_data(float *data, float *lpci, int n, int m)
  __CPROVER_requires(n >= 0 && m >= 0 && m <= 32 && RW(data, sizeof(float) * n) && RW(lpci, sizeof(float) * m))
  __CPROVER_assigns(__CPROVER_object_whole(lpci)) __CPROVER_ensures(1);
void vorbis_lpc_predict(float *coeff, float *prime, int m, float *data, long n)
  __CPROVER_requires(n >= 0 && m >= 0 && m <= 32 && RW(coeff, sizeof(float) * m) && (prime == NULL || RW(prime, sizeof(float) * m)) && RW(data, sizeof(float) * n))
  __CPROVER_assigns(__CPROVER_object_whole(data)) __CPROVER_ensures(1);

#ifndef VERIF_UNIT_WROTE
static void _preextrapolate_helper(vorbis_dsp_state *v)
  __CPROVER_requires(RW(v, sizeof(*v)) && RW(v->vi, sizeof(vorbis_info)) && v->vi->channels >= 1 && v->vi->channels <= VERIF_MAXCH)
  /* any amount of audio may have been submitted (C04: pieces of any sizes) */
  __CPROVER_requires(v->centerW >= 0 && v->centerW <= 4096 && v->pcm_current >= v->centerW && v->pcm_current <= v->pcm_storage && v->pcm_storage <= (1 << 28))
  __CPROVER_assigns(v->preextrapolate, __CPROVER_object_whole(v->pcm[0]), __CPROVER_object_whole(v->pcm[1]))
  /* C04: the one-shot flag is set whether or not there was enough audio to extrapolate from */
  __CPROVER_ensures(v->preextrapolate == 1)
  __CPROVER_ensures(v->pcm_current == OLD(v->pcm_current) && v->centerW == OLD(v->centerW))
#ifdef VERIF_ENFORCE__preextrapolate_helper
  REACH_ENSURES(v->pcm_current - v->centerW > 32 && v->vi->channels == 2 && v->pcm_current > 3000000)
  REACH_ENSURES(v->pcm_current - v->centerW <= 32)
#endif
  ;
#endif

/* ---- vorbis_analysis_wrote (C04: the encoder's count of submitted samples) ---- */
#ifdef VERIF_UNIT_WROTE
int g_pre_calls;
long g_buf_req;   /* argument of the vorbis_analysis_buffer call made for the padding */
#define WCI(v) ((codec_setup_info *)(v)->vi->codec_setup)
static void _preextrapolate_helper(vorbis_dsp_state *v)
  __CPROVER_assigns(v->preextrapolate, g_pre_calls) __CPROVER_ensures(v->preextrapolate == 1 && g_pre_calls == OLD(g_pre_calls) + 1);
/* vorbis_analysis_buffer (same file) by contract: afterwards every row has room
   for pcm_current+vals samples (rows may have moved: realloc) */
float **vorbis_analysis_buffer(vorbis_dsp_state *v, int vals)
  __CPROVER_requires(vals >= 0 && vals <= 3 * 8192)
  __CPROVER_assigns(v->pcm_storage, g_buf_req, __CPROVER_object_whole(v->pcm), __CPROVER_object_whole(v->pcmret))
  __CPROVER_frees(v->pcm[0], v->pcm[1])
  __CPROVER_ensures(g_buf_req == vals && v->pcm_storage >= OLD(v->pcm_storage) && v->pcm_storage > v->pcm_current + vals &&
                    v->pcm_storage <= (1 << 29) &&
                    FRESH(v->pcm[0], sizeof(float) * v->pcm_storage) && FRESH(v->pcm[1], sizeof(float) * v->pcm_storage));
extern const void *__CPROVER_alloca_object;   /* CBMC-internal cell written by its alloca model */
int vorbis_analysis_wrote(vorbis_dsp_state *v, int vals)
  __CPROVER_requires(vals <= (1 << 28))   /* pcm_current+vals is int arithmetic: no request beyond 2^28 samples */
  __CPROVER_requires(RW(v, sizeof(*v)) && RW(v->vi, sizeof(vorbis_info)) && RW(v->vi->codec_setup, sizeof(codec_setup_info)) &&
                     v->vi->channels >= 1 && v->vi->channels <= VERIF_MAXCH && g_pre_calls == 0)
  __CPROVER_requires(WCI(v)->blocksizes[1] >= 64 && WCI(v)->blocksizes[1] <= 8192 && v->centerW >= 0 && v->centerW <= 4096 &&
                     v->pcm_current >= v->centerW && v->pcm_current <= v->pcm_storage && v->pcm_storage <= (1 << 28) &&
                     (v->preextrapolate == 0 || v->preextrapolate == 1))
  __CPROVER_assigns(v->pcm_current, v->eofflag, v->preextrapolate, v->pcm_storage, g_pre_calls, g_buf_req, __CPROVER_alloca_object,
                    __CPROVER_object_whole(v->pcm), __CPROVER_object_whole(v->pcmret), __CPROVER_object_whole(v->pcm[0]), __CPROVER_object_whole(v->pcm[1]))
  __CPROVER_frees(v->pcm[0], v->pcm[1])
  __CPROVER_ensures(RV == 0 || RV == OV_EINVAL)
  /* more than the buffer handed out by vorbis_analysis_buffer: refused, nothing counted */
  __CPROVER_ensures((vals > 0 && OLD(v->pcm_current) + vals > OLD(v->pcm_storage)) ==> (RV == OV_EINVAL && v->pcm_current == OLD(v->pcm_current) && v->eofflag == OLD(v->eofflag)))
  /* otherwise exactly `vals` more samples are counted */
  __CPROVER_ensures((vals > 0 && OLD(v->pcm_current) + vals <= OLD(v->pcm_storage)) ==> (RV == 0 && v->pcm_current == OLD(v->pcm_current) + vals && v->eofflag == OLD(v->eofflag)))
  /* end of input: the end mark is the number of real samples; three long blocks of padding follow */
  __CPROVER_ensures(vals <= 0 ==> (RV == 0 && v->eofflag == OLD(v->pcm_current) && v->pcm_current == OLD(v->pcm_current) + 3 * WCI(v)->blocksizes[1] &&
                                   v->preextrapolate == 1 && g_buf_req == 3 * WCI(v)->blocksizes[1] && v->pcm_current <= v->pcm_storage))
  /* the start-of-stream extrapolation runs at most once */
  __CPROVER_ensures(g_pre_calls <= 1 && (OLD(v->preextrapolate) ==> g_pre_calls == 0))
#ifdef VERIF_ENFORCE_vorbis_analysis_wrote
  REACH_ENSURES(vals > 0 && RV == 0 && g_pre_calls == 1)
  REACH_ENSURES(vals <= 0 && OLD(v->pcm_current) <= 64 && v->vi->channels == 2)
  REACH_ENSURES(vals <= 0 && OLD(v->pcm_current) > 100000)
  REACH_ENSURES(RV == OV_EINVAL)
#endif
  ;
#endif

#endif
