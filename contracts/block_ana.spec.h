/* contracts for the analysis side of lib/block.c: _preextrapolate_helper (C04, C15) */
#ifndef VERIF_BLOCK_ANA_SPEC_H
#define VERIF_BLOCK_ANA_SPEC_H
#include "assumed/ogg.spec.h"
#include "vorbis/codec.h"
#include "codec_internal.h"
#define RW(p, n) __CPROVER_rw_ok((p), (n))
#define VERIF_MAXCH 2
/* lpc.c (float DSP, not verified): only the ranges they read and write matter here */
float vorbis_lpc_from_data(float *data, float *lpci, int n, int m)
  __CPROVER_requires(n >= 0 && m >= 0 && m <= 32 && RW(data, sizeof(float) * n) && RW(lpci, sizeof(float) * m))
  __CPROVER_assigns(__CPROVER_object_whole(lpci)) __CPROVER_ensures(1);
void vorbis_lpc_predict(float *coeff, float *prime, int m, float *data, long n)
  __CPROVER_requires(n >= 0 && m >= 0 && m <= 32 && RW(coeff, sizeof(float) * m) && (prime == NULL || RW(prime, sizeof(float) * m)) && RW(data, sizeof(float) * n))
  __CPROVER_assigns(__CPROVER_object_whole(data)) __CPROVER_ensures(1);

static void _preextrapolate_helper(vorbis_dsp_state *v)
  __CPROVER_requires(RW(v, sizeof(*v)) && RW(v->vi, sizeof(vorbis_info)) && v->vi->channels >= 1 && v->vi->channels <= VERIF_MAXCH)
  /* any amount of audio may have been submitted (C04: pieces of any sizes) */
  __CPROVER_requires(v->centerW >= 0 && v->centerW <= 4096 && v->pcm_current >= v->centerW && v->pcm_current <= v->pcm_storage && v->pcm_storage <= (1 << 28))
  __CPROVER_assigns(v->preextrapolate, __CPROVER_object_whole(v->pcm[0]), __CPROVER_object_whole(v->pcm[1]))
  /* C04: the one-shot flag is set whether or not there was enough audio to extrapolate from */
  __CPROVER_ensures(v->preextrapolate == 1)
  __CPROVER_ensures(v->pcm_current == OLD(v->pcm_current) && v->centerW == OLD(v->centerW))
#ifdef VERIF_ENFORCE__preextrapolate_helper
  REACH_ENSURES(v->pcm_current - v->centerW > 32 && v->vi->channels == 2 && v->pcm_current > 3000000)
  REACH_ENSURES(v->pcm_current - v->centerW <= 32)
#endif
  ;
#endif
