/* contracts for _make_decode_ready / _decode_clear (lib/vorbisfile.c) - C03: the
   decoder of a link is set up from THAT link's info (a streaming handle keeps one
   table slot however many links it has walked through), C13 (clear order) */
#ifndef VERIF_VF_READY_SPEC_H
#define VERIF_VF_READY_SPEC_H
#include "vf_open.spec.h"
#define RW(p, n) __CPROVER_rw_ok((p), (n))
int nondet_int(void);
vorbis_info *g_init_vi; vorbis_dsp_state *g_init_vd; int g_init_calls, g_init_ret, g_binit_calls;
int g_dspclr, g_blkclr;
int vorbis_synthesis_init(vorbis_dsp_state *v, vorbis_info *vi) {
  __CPROVER_assert(__CPROVER_r_ok(vi, sizeof(*vi)), "decoder set-up reads a vorbis_info inside the handle's table");
  g_init_vi = vi; g_init_vd = v; g_init_calls++; g_init_ret = nondet_int();
  return g_init_ret;
}
int vorbis_block_init(vorbis_dsp_state *v, vorbis_block *vb) { __CPROVER_assert(g_init_calls == 1 && g_init_ret == 0 && v == g_init_vd, "block set-up only after a successful decoder set-up, on the same state"); g_binit_calls++; return 0; }
void vorbis_dsp_clear(vorbis_dsp_state *v) { g_dspclr++; }
int vorbis_block_clear(vorbis_block *vb) { g_blkclr++; return 0; }
#endif
