/* contracts for lib/synthesis.c: vorbis_synthesis, vorbis_synthesis_trackonly,
   vorbis_packet_blocksize (properties C01 4.3.1, C02, C05, C11) */
#ifndef VERIF_SYNTH_PACKET_SPEC_H
#define VERIF_SYNTH_PACKET_SPEC_H
#include "assumed/ogg.spec.h"
#include "vorbis/codec.h"
#include "codec_internal.h"
#include "registry.h"

#ifndef VERIF_MAXCH
#define VERIF_MAXCH 2
#endif
#define RW(p, n) __CPROVER_rw_ok((p), (n))
#define VB_VD(vb) ((vb)->vd)
#define VB_B(vb) ((private_state *)(vb)->vd->backend_state)
#define VB_VI(vb) ((vb)->vd->vi)
#define VB_CI(vb) ((codec_setup_info *)(vb)->vd->vi->codec_setup)

/* ghost */
int g_rip_calls;          /* calls of _vorbis_block_ripcord */
int g_alloc_calls;        /* calls of _vorbis_block_alloc in this activation */
void *g_alloc[1 + VERIF_MAXCH];   /* what they returned, in order */
long g_alloc_bytes[1 + VERIF_MAXCH];
int g_inv_calls;          /* calls of the mapping's inverse */
int g_inv_ret;
float **g_pcm_in;         /* vb->pcm at entry (possibly stale) */
long g_m;                 /* ghost mode index */

/* ---- callee contracts ---------------------------------------------------- */
/* block.c, other translation unit.  ripcord releases every block-local
   allocation: pointers obtained from _vorbis_block_alloc before it are dead. */
void _vorbis_block_ripcord(vorbis_block *vb)
  __CPROVER_requires(RW(vb, sizeof(*vb)))
  __CPROVER_assigns(vb->localtop, vb->reap, vb->totaluse, vb->localstore, vb->localalloc, g_rip_calls)
  __CPROVER_ensures(vb->localtop == 0 && vb->reap == NULL && vb->totaluse == 0 && g_rip_calls == OLD(g_rip_calls) + 1);

/* ASSUMED model of _vorbis_block_alloc (stub with a body so that the returned
   pointers are assigned): a fresh region of `bytes` bytes, recorded in order. */
void *_vorbis_block_alloc(vorbis_block *vb, long bytes) {
  __CPROVER_assert(bytes >= 0 && bytes <= (1L << 24), "block-local allocation size sane");
  void *p = malloc(bytes);
  if (g_alloc_calls <= VERIF_MAXCH) { g_alloc[g_alloc_calls] = p; g_alloc_bytes[g_alloc_calls] = bytes; }
  g_alloc_calls++;
  return p;
}

/* the mapping back end behind _mapping_P[0]->inverse (mapping0_inverse, proved
   against this same contract in its own unit): needs a block whose PCM rows
   were allocated for this packet, pcmend = blocksizes[W] floats each */
int verif_mapping_inverse(vorbis_block *vb, vorbis_info_mapping *l)
  __CPROVER_requires(RW(vb, sizeof(*vb)) && l != NULL && g_rip_calls == 1)
  __CPROVER_requires((vb->W == 0 || vb->W == 1) && vb->pcmend == VB_CI(vb)->blocksizes[vb->W])
  __CPROVER_requires(vb->mode >= 0 && vb->mode < VB_CI(vb)->modes && l == VB_CI(vb)->map_param[VB_CI(vb)->mode_param[vb->mode]->mapping])
  __CPROVER_requires(g_alloc_calls == 1 + VB_VI(vb)->channels && vb->pcm == (float **)g_alloc[0] &&
                     g_alloc_bytes[0] == (long)sizeof(float *) * VB_VI(vb)->channels)
  __CPROVER_requires(vb->pcm[0] == (float *)g_alloc[1] && g_alloc_bytes[1] == (long)sizeof(float) * vb->pcmend)
  __CPROVER_requires(VB_VI(vb)->channels < 2 || (vb->pcm[1] == (float *)g_alloc[2] && g_alloc_bytes[2] == (long)sizeof(float) * vb->pcmend))
  __CPROVER_assigns(g_inv_calls, g_inv_ret)
  __CPROVER_ensures(g_inv_calls == OLD(g_inv_calls) + 1 && RV == g_inv_ret);
/* ASSUMED: mapping type 0's bundle has mapping0_inverse in its `inverse` slot
   (mapping0.c:808); here the slot holds the contract stub */
const vorbis_func_mapping mapping0_exportbundle = {0, 0, 0, 0, &verif_mapping_inverse};

/* ---- what vorbis_synthesis_init / the setup header establish --------------- */
#define SYN_OBJ(vb) (RW(vb, sizeof(*vb)) && RW((vb)->vd, sizeof(vorbis_dsp_state)) && RW((vb)->vd->backend_state, sizeof(private_state)) && \
   RW((vb)->vd->vi, sizeof(vorbis_info)) && RW((vb)->vd->vi->codec_setup, sizeof(codec_setup_info)))
#define ILOG6(x) ((x) >= 32 ? 6 : (x) >= 16 ? 5 : (x) >= 8 ? 4 : (x) >= 4 ? 3 : (x) >= 2 ? 2 : (x) >= 1 ? 1 : 0)
#define INV_CI_MODES(ci, b) ((ci)->modes >= 1 && (ci)->modes <= 64 && (b)->modebits == ILOG6((ci)->modes - 1) && \
   (ci)->maps >= 1 && (ci)->maps <= 64 && (ci)->blocksizes[0] >= 64 && (ci)->blocksizes[0] <= (ci)->blocksizes[1] && (ci)->blocksizes[1] <= 8192)
/* for the ghost mode g_m: inside the table -> a valid mode (block flag 0/1,
   mapping below maps, that mapping of type 0 with parameters); beyond -> NULL */
#define INV_MODE_AT(ci, m) (((m) < (ci)->modes) ? ((ci)->mode_param[m] != NULL && RW((ci)->mode_param[m], sizeof(vorbis_info_mode)) && \
     ((ci)->mode_param[m]->blockflag == 0 || (ci)->mode_param[m]->blockflag == 1) && \
     (ci)->mode_param[m]->mapping >= 0 && (ci)->mode_param[m]->mapping < (ci)->maps && \
     (ci)->map_type[(ci)->mode_param[m]->mapping] == 0 && (ci)->map_param[(ci)->mode_param[m]->mapping] != NULL) \
   : (ci)->mode_param[m] == NULL)

/* Vorbis I 4.3.1: [packet type:1] [mode:ilog(modes-1)] and, for a long block
   only, [previous window flag:1] [next window flag:1] */
#define SYN_HDR_BITS(vb) (1 + VB_B(vb)->modebits + ((vb)->W ? 2 : 0))

int vorbis_synthesis(vorbis_block *vb, ogg_packet *op)
  __CPROVER_requires(SYN_OBJ(vb) && RW(op, sizeof(*op)) && op->bytes >= 0 && op->bytes <= 0x7fffffffL)
  __CPROVER_requires(INV_CI_MODES(VB_CI(vb), VB_B(vb)) && VB_VI(vb)->channels >= 1 && VB_VI(vb)->channels <= VERIF_MAXCH)
  __CPROVER_requires(g_rip_calls == 0 && g_alloc_calls == 0 && g_inv_calls == 0 && g_pcm_in == vb->pcm)
  __CPROVER_assigns(*vb, g_bits_read, g_rip_calls, g_alloc_calls, g_inv_calls, g_inv_ret, __CPROVER_object_whole(g_alloc), __CPROVER_object_whole(g_alloc_bytes))
  /* C02/C11: the scratch arena is recycled exactly once, first of all */
  __CPROVER_ensures(g_rip_calls == 1 && vb->localtop >= 0)
  __CPROVER_ensures(RV == OV_ENOTAUDIO || RV == OV_EBADPACKET || (g_inv_calls == 1 && RV == g_inv_ret))
  /* C02 (any order of calls): whatever the outcome, the block never keeps PCM
     pointers that the recycling has released: either no PCM, or the row table
     allocated by THIS call */
  __CPROVER_ensures(vb->pcm == NULL || (g_alloc_calls >= 1 && vb->pcm == (float **)g_alloc[0]))
  __CPROVER_ensures(g_inv_calls == 1 ==> (vb->mode >= 0 && vb->mode < VB_CI(vb)->modes &&
                                          vb->W == VB_CI(vb)->mode_param[vb->mode]->blockflag &&
                                          vb->pcmend == VB_CI(vb)->blocksizes[vb->W] &&
                                          vb->granulepos == op->granulepos && vb->sequence == op->packetno && vb->eofflag == (int)op->e_o_s &&
                                          (vb->W == 0 ==> (vb->lW == 0 && vb->nW == 0)) &&
                                          g_bits_read == OLD(g_bits_read) + SYN_HDR_BITS(vb)))
#ifdef VERIF_ENFORCE_vorbis_synthesis
  REACH_ENSURES(g_inv_calls == 1 && vb->W == 1 && VB_VI(vb)->channels == 2)
  REACH_ENSURES(RV == OV_ENOTAUDIO)
  REACH_ENSURES(RV == OV_EBADPACKET && vb->W == 1 && g_alloc_calls == 0)
  REACH_ENSURES(g_inv_calls == 1 && vb->mode == 63)
#endif
  ;

int vorbis_synthesis_trackonly(vorbis_block *vb, ogg_packet *op)
  __CPROVER_requires(SYN_OBJ(vb) && RW(op, sizeof(*op)) && op->bytes >= 0 && op->bytes <= 0x7fffffffL)
  __CPROVER_requires(INV_CI_MODES(VB_CI(vb), VB_B(vb)))
  __CPROVER_requires(g_rip_calls == 0 && g_alloc_calls == 0)
  __CPROVER_assigns(*vb, g_bits_read, g_rip_calls)
  __CPROVER_ensures(g_rip_calls == 1)
  __CPROVER_ensures(RV == OV_ENOTAUDIO || RV == OV_EBADPACKET || RV == 0)
  /* never any PCM after a track-only call, whatever the outcome (the previous
     packet's rows were released by the recycling) */
  __CPROVER_ensures(vb->pcm == NULL)
  __CPROVER_ensures(RV == 0 ==> (vb->mode >= 0 && vb->mode < VB_CI(vb)->modes && vb->pcmend == 0 &&
                                 vb->W == VB_CI(vb)->mode_param[vb->mode]->blockflag &&
                                 vb->granulepos == op->granulepos && vb->sequence == op->packetno && vb->eofflag == (int)op->e_o_s &&
                                 g_bits_read == OLD(g_bits_read) + SYN_HDR_BITS(vb)))
#ifdef VERIF_ENFORCE_vorbis_synthesis_trackonly
  REACH_ENSURES(RV == 0 && vb->W == 1)
  REACH_ENSURES(RV == OV_EBADPACKET)
#endif
  ;

int ov_ilog(ogg_uint32_t v)
  __CPROVER_assigns()
  __CPROVER_ensures(v < 64 ==> RV == ILOG6(v));

long vorbis_packet_blocksize(vorbis_info *vi, ogg_packet *op)
  __CPROVER_requires(RW(vi, sizeof(*vi)) && RW(op, sizeof(*op)) && op->bytes >= 0 && op->bytes <= 0x7fffffffL)
  __CPROVER_requires(vi->codec_setup == NULL || (RW(vi->codec_setup, sizeof(codec_setup_info)) &&
                     ((codec_setup_info *)vi->codec_setup)->modes <= 64 &&
                     ((codec_setup_info *)vi->codec_setup)->blocksizes[0] >= 64 && ((codec_setup_info *)vi->codec_setup)->blocksizes[1] <= 8192 &&
                     ((codec_setup_info *)vi->codec_setup)->blocksizes[0] <= ((codec_setup_info *)vi->codec_setup)->blocksizes[1]))
  __CPROVER_assigns(g_bits_read)
  __CPROVER_ensures((vi->codec_setup == NULL || ((codec_setup_info *)vi->codec_setup)->modes <= 0) <==> RV == OV_EFAULT)
  __CPROVER_ensures(RV == OV_EFAULT || RV == OV_ENOTAUDIO || RV == OV_EBADPACKET ||
                    RV == ((codec_setup_info *)vi->codec_setup)->blocksizes[0] || RV == ((codec_setup_info *)vi->codec_setup)->blocksizes[1])
#ifdef VERIF_ENFORCE_vorbis_packet_blocksize
  REACH_ENSURES(RV > 0)
  REACH_ENSURES(RV == OV_EBADPACKET)
#endif
  ;
#endif
