/* contracts for the residue decode entry points of lib/res0.c:
   res0_inverse / res1_inverse (channel compaction, C01 8.6.2 "do not decode"
   vectors are skipped), _01inverse and res2_inverse (C02: partition/class/stage
   indexing, residue end clamp) */
#ifndef VERIF_RES0_INV_SPEC_H
#define VERIF_RES0_INV_SPEC_H
#include "assumed/ogg.spec.h"
#include "vorbis/codec.h"
#include "codec_internal.h"
#include "codebook.h"
#define RW(p, n) __CPROVER_rw_ok((p), (n))
int nondet_int(void); long nondet_long(void);
extern const void *__CPROVER_alloca_object;   /* CBMC-internal bookkeeping cell written by its alloca model */

#ifndef VERIF_RES_MAXCH
#define VERIF_RES_MAXCH 256

#endif
/* ---- ghost --------------------------------------------------------------- */
int g_cnt[VERIF_RES_MAXCH + 1];      /* g_cnt[i] = number of channels among [0,i) that are to be decoded (built by the harness) */
float *g_row[VERIF_RES_MAXCH];       /* the bundle as handed in */
int g_k;                             /* ghost channel */
int g_01_calls, g_01_ch; float **g_01_in; void *g_01_vb, *g_01_vl; void *g_01_fn;
#ifdef VERIF_RES_CORE
/* ---- body-ful stubs for the callees of _01inverse / res2_inverse: they CHECK
   what the partition decoder hands them (their own contracts: units cb_decodev_add,
   cb_decodev_set, blk_alloc) ------------------------------------------------- */
#ifndef VERIF_CORE_MAXCH
#define VERIF_CORE_MAXCH 2
#endif
codebook *g_phrasebook, *g_stagebook;       /* the classification book / the (one) stage book object */
float *g_rows[VERIF_CORE_MAXCH]; long g_rowlen;   /* residue vectors and their length (half a block) */
int g_grouping, g_chs; float **g_in; int g_part_calls, g_class_calls;
long vorbis_book_decode(codebook *book, oggpack_buffer *b) {
  __CPROVER_assert(book == g_phrasebook, "classification words are read with the residue's classification book");
  long r = nondet_long(); __CPROVER_assume(r >= -1 && r < (1L << 24));   /* an ORIGINAL entry number: may exceed partvals (res0_unpack allows entries > parts^dim) */
  g_class_calls++;
  return r;
}
void *_vorbis_block_alloc(vorbis_block *vb, long bytes) {
  __CPROVER_assert(bytes >= 0 && bytes <= (1L << 28), "block-local allocation request within _vorbis_block_alloc's precondition");
  return malloc(bytes);    /* contents arbitrary, as the arena's */
}
/* the partition decoders (decodev_add / decodevs_add): n floats at a */
long verif_decodepart(codebook *book, float *a, oggpack_buffer *b, int n) {
  __CPROVER_assert(book == g_stagebook, "stage book comes from the residue's book table");
  __CPROVER_assert(n == g_grouping, "one partition per call");
  int c = __CPROVER_same_object(a, g_rows[0]) ? 0 : 1;
  __CPROVER_assert(c < g_chs && __CPROVER_same_object(a, g_rows[c]), "partition lies in one of the bundle's vectors");
  __CPROVER_assert(a >= g_rows[c] && (a - g_rows[c]) + (long)n <= g_rowlen, "partition [offset, offset+n) inside the vector (residue end clipped to half the block)");
  g_part_calls++;
  return nondet_int() ? 0 : -1;
}
/* the interleaved decoder of format 2 */
long vorbis_book_decodevv_add(codebook *book, float **a, long offset, int ch, oggpack_buffer *b, int n) {
  __CPROVER_assert(book == g_stagebook, "stage book comes from the residue's book table");
  __CPROVER_assert(n == g_grouping && a == g_in && ch == g_chs, "one partition per call, over the whole bundle");
  __CPROVER_assert(offset >= 0 && offset + n <= (long)ch * g_rowlen, "interleaved partition [offset, offset+n) inside ch vectors (residue end clipped to ch half blocks)");
  g_part_calls++;
  return nondet_int() ? 0 : -1;
}
#endif
#endif
