/* contracts for the residue decode entry points of lib/res0.c:
   res0_inverse / res1_inverse (channel compaction, C01 8.6.2 "do not decode"
   vectors are skipped), _01inverse and res2_inverse (C02: partition/class/stage
   indexing, residue end clamp) */
#ifndef VERIF_RES0_INV_SPEC_H
#define VERIF_RES0_INV_SPEC_H
#include "assumed/ogg.spec.h"
#include "vorbis/codec.h"
#include "codec_internal.h"
#include "codebook.h"
#define RW(p, n) __CPROVER_rw_ok((p), (n))
int nondet_int(void); long nondet_long(void);
extern const void *__CPROVER_alloca_object;   /* CBMC-internal bookkeeping cell written by its alloca model */

#ifndef VERIF_RES_MAXCH
#define VERIF_RES_MAXCH 256
#endif
/* ---- ghost --------------------------------------------------------------- */
int g_cnt[VERIF_RES_MAXCH + 1];      /* g_cnt[i] = number of channels among [0,i) that are to be decoded (built by the harness) */
float *g_row[VERIF_RES_MAXCH];       /* the bundle as handed in */
int g_k;                             /* ghost channel */
int g_01_calls, g_01_ch; float **g_01_in; void *g_01_vb, *g_01_vl; void *g_01_fn;
#endif
