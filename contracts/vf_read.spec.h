/* contracts for ov_read_filter / ov_read_float (lib/vorbisfile.c) - C17, C07, C20 */
#ifndef VERIF_VF_READ_SPEC_H
#define VERIF_VF_READ_SPEC_H
#include "assumed/ogg.spec.h"
#include <math.h>
#include <stdio.h>
/* goto-instrument 6.11 aborts (linking invariant) when the stdio callback
   table of ov_open/ov_fopen/ov_test references libc's fread.  Those three
   wrappers are not under contract; their libc references are renamed to
   body-less stubs so that the translation unit can be instrumented. */
size_t verif_fread(void *, size_t, size_t, FILE *);
int verif_fclose(FILE *);
long verif_ftell(FILE *);
int verif_fseek(FILE *, long, int);
int verif_fseeko(FILE *, off_t, int);
FILE *verif_fopen(const char *, const char *);
#define fread verif_fread
#define fclose verif_fclose
#define ftell verif_ftell
#define fseek verif_fseek
#define fseeko verif_fseeko
#define fopen verif_fopen
#include "vorbis/codec.h"
#include "vorbis/vorbisfile.h"

#define PARTOPEN 1
#define OPENED 2
#define STREAMSET 3
#define INITSET 4

/* ---- ASSUMED: the x86-64 conversion instruction behind vorbis_ftoi ------
   cvtsd2si: round to nearest even (default MXCSR); NaN or a result outside
   int range gives the "integer indefinite" value 0x80000000 (Intel SDM). */
typedef double verif_v2df __attribute__((vector_size(16)));
int __builtin_ia32_cvtsd2si(verif_v2df v) {
  double x = v[0];
  if (x != x) return INT_MIN;
  double r = nearbyint(x);
  if (r >= 2147483648.0 || r < -2147483648.0) return INT_MIN;
  return (int)r;
}

/* ---- ghost ------------------------------------------------------------- */
#ifndef VERIF_MAXCH
#define VERIF_MAXCH 2          /* the pcm row table is modelled for <= 2 channels */
#endif
#ifndef VERIF_MAXS
#define VERIF_MAXS 2           /* at most 2 frames are handed out per packet (bounded stand-in) */
#endif
float **g_pcm;                 /* row table handed out by the last vorbis_synthesis_pcmout */
long g_avail;                  /* samples it reported */
long g_consumed;               /* argument of the last vorbis_synthesis_read */
long g_read_calls;
char *g_buf0;                  /* entry value of `buffer` */
long g_b;                      /* ghost byte index */
char g_bufold;                 /* buffer[g_b] at entry */
long g_i, g_j;                 /* ghost channel / frame */
ogg_int64_t g_off0;            /* vf->pcm_offset at entry */
ogg_int64_t g_off_last;        /* vf->pcm_offset after the last packet fetch */
long g_fetch_calls;
int g_hs;                      /* result of the last vorbis_synthesis_halfrate_p */

/* callee contracts (each is proved or assumed in its own unit) */
/* ASSUMED behaviour of vorbis_synthesis_pcmout (lib/block.c, other translation
   unit), written as a stub with a body rather than a contract because the
   pointers it hands out must be *assigned* (CBMC tracks pointer targets by
   assignment, not by an assumed equality): 0..VERIF_MAXS frames in VERIF_MAXCH
   separately allocated rows of arbitrary floats. */
int nondet_int(void);
int vorbis_synthesis_pcmout(vorbis_dsp_state *v, float ***pcm) {
  int n = nondet_int();
  __CPROVER_assume(n >= 0 && n <= VERIF_MAXS);
  if (n > 0) {
    g_pcm = malloc(VERIF_MAXCH * sizeof(float *));
    g_pcm[0] = malloc(VERIF_MAXS * sizeof(float));
    g_pcm[1] = malloc(VERIF_MAXS * sizeof(float));
    if (pcm) *pcm = g_pcm;
  }
  g_avail = n;
  return n;
}

int vorbis_synthesis_read(vorbis_dsp_state *v, int samples)
  __CPROVER_requires(FRESH(v, sizeof(*v)))
  __CPROVER_assigns(v->pcm_returned, g_consumed, g_read_calls)
  __CPROVER_ensures(g_consumed == samples && g_read_calls == OLD(g_read_calls) + 1);

int vorbis_synthesis_halfrate_p(vorbis_info *vi)
  __CPROVER_requires(FRESH(vi, sizeof(*vi)))
  __CPROVER_assigns(g_hs)
  __CPROVER_ensures((RV == 0 || RV == 1) && g_hs == RV);

#define CH_OK(c) ((c) <= VERIF_MAXCH || (c) > 255)
#define VF_SHAPE(vf) (FRESH(vf, sizeof(OggVorbis_File)) && (vf)->links >= 1 && (vf)->links <= 4 && \
   FRESH((vf)->vi, sizeof(vorbis_info) * (vf)->links) && \
   (vf)->current_link >= 0 && (vf)->current_link < (vf)->links && \
   ((vf)->seekable == 0 || (vf)->seekable == 1) && (vf)->pcm_offset >= -1 && (vf)->pcm_offset < (1LL << 62) && \
   CH_OK((vf)->vi[0].channels) && ((vf)->links < 2 || CH_OK((vf)->vi[1].channels)) && \
   ((vf)->links < 3 || CH_OK((vf)->vi[2].channels)) && ((vf)->links < 4 || CH_OK((vf)->vi[3].channels)))
#define VF_CUR_VI(vf) ((vf)->seekable && (vf)->ready_state >= STREAMSET ? (vf)->vi + (vf)->current_link : (vf)->vi)

static int _fetch_and_process_packet(OggVorbis_File *vf, ogg_packet *op_in, int readp, int spanp)
  __CPROVER_requires(FRESH(vf, sizeof(*vf)))
  __CPROVER_assigns(vf->offset, vf->pcm_offset, vf->ready_state, vf->current_serialno, vf->current_link,
                    vf->bittrack, vf->samptrack, vf->oy, vf->os, vf->vd, vf->vb, g_fetch_calls, g_off_last)
  __CPROVER_ensures(RV <= 1 && g_fetch_calls == OLD(g_fetch_calls) + 1 && g_off_last == vf->pcm_offset)
  __CPROVER_ensures(vf->ready_state >= OPENED && vf->ready_state <= INITSET)
  __CPROVER_ensures(vf->current_link >= 0 && vf->current_link < vf->links)
  __CPROVER_ensures(vf->pcm_offset >= -1 && vf->pcm_offset < (1LL << 62));

/* ---- specification of the sample format (property C17) ------------------ */
/* scaled value as the library computes it: float product, widened to double */
#define SCALED(x, sc) ((double)((float)(x) * (float)(sc)))
/* round to nearest, clip to [lo,hi] (NaN excluded by the caller of the macro) */
#define RNDCLIP(d, lo, hi) ((d) >= (double)(hi) ? (hi) : ((d) <= (double)(lo) ? (lo) : (int)__CPROVER_round_to_integrald((d), 0)))
#define EXP8(x, sg) ((char)(RNDCLIP(SCALED(x, 128.f), -128, 127) + ((sg) ? 0 : 128)))
#define EXP16(x, sg) (RNDCLIP(SCALED(x, 32768.f), -32768, 32767) + ((sg) ? 0 : 32768))

long ov_read_filter(OggVorbis_File *vf, char *buffer, int length, int bigendianp, int word, int sgned, int *bitstream,
                    void (*filter)(float **pcm, long channels, long samples, void *filter_param), void *filter_param)
  __CPROVER_requires(VF_SHAPE(vf) && vf->ready_state >= 0 && vf->ready_state <= INITSET)
  /* buffer: allocated by the harness (length bytes) so that the ghost g_buf0 can
     alias it by assignment */
  __CPROVER_requires(length >= 0 && g_buf0 == buffer && __CPROVER_rw_ok(buffer, length))
  __CPROVER_requires(word <= 2 && (bigendianp == 0 || bigendianp == 1))
  __CPROVER_requires(filter == NULL && (bitstream == NULL || FRESH(bitstream, sizeof(int))))
  /* exhaustive case split over the format arguments (one proof unit per case;
     the cases partition word<=2 x sgned x bigendianp, see units/u_vfread.py) */
#if VERIF_CASE == 0
  __CPROVER_requires(word <= 0)
#elif VERIF_CASE == 1
  __CPROVER_requires(word == 1)
#elif VERIF_CASE == 2
  __CPROVER_requires(word == 2 && bigendianp == 0 && sgned != 0)
#elif VERIF_CASE == 3
  __CPROVER_requires(word == 2 && bigendianp == 0 && sgned == 0)
#elif VERIF_CASE == 4
  __CPROVER_requires(word == 2 && bigendianp == 1)
#endif
  /* the decoder hands out 1..VERIF_MAXCH rows; other channel counts must be
     refused before any row is touched */
  __CPROVER_requires(0 <= g_b && g_b < length && g_bufold == buffer[g_b] && g_off0 == vf->pcm_offset)
  __CPROVER_requires(g_read_calls == 0 && g_fetch_calls == 0 && g_avail == 0 && 0 <= g_i && g_i < VERIF_MAXCH && 0 <= g_j)
  __CPROVER_assigns(vf->offset, vf->pcm_offset, vf->ready_state, vf->current_serialno, vf->current_link,
                    vf->bittrack, vf->samptrack, vf->oy, vf->os, vf->vd, vf->vb, g_pcm, g_avail, g_consumed, g_read_calls,
                    g_fetch_calls, g_off_last, g_hs)
  __CPROVER_assigns(word > 0: __CPROVER_object_whole(buffer))
  __CPROVER_assigns(bitstream != NULL: *bitstream)
  /* parameter errors */
  __CPROVER_ensures(word <= 0 ==> RV == OV_EINVAL)
  __CPROVER_ensures(OLD(vf->ready_state) < OPENED ==> RV == OV_EINVAL)
#if VERIF_CASE != 0
  /* a whole number of frames, never more than the buffer holds */
  __CPROVER_ensures(RV <= length)
  __CPROVER_ensures(RV > 0 ==> (g_read_calls == 1 && g_consumed >= 1 && g_consumed <= g_avail &&
                               VF_CUR_VI(vf)->channels >= 1 && VF_CUR_VI(vf)->channels <= VERIF_MAXCH &&
                               RV == g_consumed * word * VF_CUR_VI(vf)->channels &&
                               ((g_consumed + 1) * word * VF_CUR_VI(vf)->channels > length || g_consumed == g_avail)))
  /* the position advances by exactly the frames returned (doubled under half-rate) */
  __CPROVER_ensures(RV > 0 ==> vf->pcm_offset == (g_fetch_calls > 0 ? g_off_last : g_off0) + (g_consumed << g_hs))
  __CPROVER_ensures((RV > 0 && bitstream != NULL) ==> *bitstream == vf->current_link)
  /* nothing is consumed, and nothing written, unless frames are returned */
  __CPROVER_ensures(RV <= 0 ==> (g_read_calls == 0 && g_buf0[g_b] == g_bufold))
  __CPROVER_ensures(RV > 0 ==> (g_b >= RV ==> g_buf0[g_b] == g_bufold))
  /* once the decoder has frames ready: a buffer too small for one frame (or a
     channel count outside 1..255) is an error, anything else returns frames */
  __CPROVER_ensures((g_avail > 0 && RV <= 0) ==> RV == OV_EINVAL)
  __CPROVER_ensures((g_avail > 0 && VF_CUR_VI(vf)->channels >= 1 && VF_CUR_VI(vf)->channels <= VERIF_MAXCH &&
                     length >= (long)word * VF_CUR_VI(vf)->channels) ==> RV > 0)
  __CPROVER_ensures((g_avail > 0 && length < (long)word * VF_CUR_VI(vf)->channels) ==> RV == OV_EINVAL)
  /* 8 bit */
  __CPROVER_ensures((RV > 0 && word == 1 && g_i < VF_CUR_VI(vf)->channels && g_j < g_consumed &&
                     g_pcm[g_i][g_j] == g_pcm[g_i][g_j]) ==>
                    g_buf0[g_j * VF_CUR_VI(vf)->channels + g_i] == EXP8(g_pcm[g_i][g_j], sgned))
  /* 16 bit, either byte order */
  __CPROVER_ensures((RV > 0 && word == 2 && g_i < VF_CUR_VI(vf)->channels && g_j < g_consumed &&
                     g_pcm[g_i][g_j] == g_pcm[g_i][g_j]) ==>
                    ((unsigned char)g_buf0[2 * (g_j * VF_CUR_VI(vf)->channels + g_i) + (bigendianp ? 1 : 0)] ==
                       (EXP16(g_pcm[g_i][g_j], sgned) & 0xff) &&
                     (unsigned char)g_buf0[2 * (g_j * VF_CUR_VI(vf)->channels + g_i) + (bigendianp ? 0 : 1)] ==
                       ((EXP16(g_pcm[g_i][g_j], sgned) >> 8) & 0xff)))
#endif /* VERIF_CASE != 0 */
  ;

#endif
