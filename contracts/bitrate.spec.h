/* contracts for lib/bitrate.c  (property C14) */
#ifndef VERIF_BITRATE_SPEC_H
#define VERIF_BITRATE_SPEC_H
#include "assumed/ogg.spec.h"
#include "vorbis/codec.h"
#include "codec_internal.h"

/* ---- assumed libogg write-side contracts -------------------------------- */
#define INV_OPBW(b) ((b)->endbyte >= 0 && (b)->endbyte < (1L << 40) && (b)->endbit >= 0 && (b)->endbit < 8)
#define OPB_BYTES(b) ((b)->endbyte + ((b)->endbit + 7) / 8)

/* oggpack_bytes is declared in ogg.spec.h */

void oggpack_writetrunc(oggpack_buffer *b, long bits)
  __CPROVER_requires(FRESH(b, sizeof(*b)) && INV_OPBW(b))
  __CPROVER_requires(bits >= 0 && bits <= b->endbyte * 8 + b->endbit)
  __CPROVER_assigns(b->endbyte, b->endbit, b->ptr)
  __CPROVER_ensures(b->endbyte == (bits >> 3) && b->endbit == (int)(bits & 7));

void oggpack_write(oggpack_buffer *b, unsigned long value, int bits)
  __CPROVER_requires(FRESH(b, sizeof(*b)) && INV_OPBW(b))
  __CPROVER_requires(bits >= 0 && bits <= 32)
  __CPROVER_assigns(b->endbyte, b->endbit, b->ptr, b->buffer, b->storage, g_bits_written)
  __CPROVER_ensures(b->endbit >= 0 && b->endbit < 8 && b->endbyte >= 0 && b->endbyte <= OLD(b->endbyte) + 4)
  __CPROVER_ensures(b->endbyte * 8 + b->endbit == OLD(b->endbyte) * 8 + OLD(b->endbit) + bits)
  __CPROVER_ensures(g_bits_written == OLD(g_bits_written) + bits);

/* ---- the reservoir invariant ------------------------------------------- */
#define BM_OF(vb) (&((private_state *)(vb)->vd->backend_state)->bms)
#define BI_OF(vb) (&((codec_setup_info *)(vb)->vd->vi->codec_setup)->bi)
#define CI_OF(vb) ((codec_setup_info *)(vb)->vd->vi->codec_setup)

/* what vorbis_bitrate_init + the control interface establish */
/* reservoir_bits >= 8: packets are whole bytes, so with a reservoir smaller
   than one byte no encoder can keep a CBR stream inside it (counterexample
   found by this unit: reservoir 3 bits, min==max, padding to the next byte
   leaves 5 bits in the reservoir).  Degenerate configurations below one byte
   are outside the claim - stated in evidence.assumptions. */
#define INV_BM(bm, bi) ((bi)->reservoir_bits >= 8 && (bi)->reservoir_bits <= (1L << 40) && \
   (bi)->reservoir_bias >= 0. && (bi)->reservoir_bias <= 1. && \
   (bm)->minmax_reservoir >= 0 && (bm)->minmax_reservoir <= (bi)->reservoir_bits && \
   (bm)->min_bitsper >= 0 && (bm)->max_bitsper >= 0 && (bm)->avg_bitsper >= 0 && \
   (bm)->min_bitsper <= (1L << 32) && (bm)->max_bitsper <= (1L << 32) && (bm)->avg_bitsper <= (1L << 32) && \
   ((bm)->min_bitsper == 0 || (bm)->max_bitsper == 0 || (bm)->min_bitsper <= (bm)->max_bitsper) && \
   (bm)->short_per_long >= 1 && (bm)->short_per_long <= 128)

#define BLOB(vb, i) (((vorbis_block_internal *)(vb)->internal)->packetblob[i])
#define BLOB_FRESH(vb, i) (__CPROVER_rw_ok(BLOB(vb, i), sizeof(oggpack_buffer)) && INV_OPBW(BLOB(vb, i)) && BLOB(vb, i)->endbyte < (1L << 39))
#define ALL_BLOBS_FRESH(vb) (BLOB_FRESH(vb, 0) && BLOB_FRESH(vb, 1) && BLOB_FRESH(vb, 2) && BLOB_FRESH(vb, 3) && \
   BLOB_FRESH(vb, 4) && BLOB_FRESH(vb, 5) && BLOB_FRESH(vb, 6) && BLOB_FRESH(vb, 7) && BLOB_FRESH(vb, 8) && \
   BLOB_FRESH(vb, 9) && BLOB_FRESH(vb, 10) && BLOB_FRESH(vb, 11) && BLOB_FRESH(vb, 12) && BLOB_FRESH(vb, 13) && \
   BLOB_FRESH(vb, 14))

#define TARGET(vb, per) ((vb)->W ? (per) * BM_OF(vb)->short_per_long : (per))

/* ghost: entry values that the postconditions refer to (OLD() of a deep
   path is taken via harness-set ghosts to keep the contract readable) */
long g_R0;            /* minmax_reservoir at entry */

/* The object graph (block, internal, dsp state, private state, info, setup,
   15 blobs) is built by the harness with real allocations, so that the case
   split (which limits are active, block flag) is made by ASSIGNING constants:
   CBMC then prunes the inactive branches instead of bit-blasting them.  The
   cases partition the configurations (units/u_bitrate.py). */
#define HFRESH(p, n) __CPROVER_rw_ok((p), (n))
int vorbis_bitrate_addblock(vorbis_block *vb)
  __CPROVER_requires(HFRESH(vb, sizeof(*vb)) && (vb->W == 0 || vb->W == 1))
  __CPROVER_requires(HFRESH(vb->internal, sizeof(vorbis_block_internal)))
  __CPROVER_requires(HFRESH(vb->vd, sizeof(vorbis_dsp_state)))
  __CPROVER_requires(HFRESH(vb->vd->backend_state, sizeof(private_state)))
  __CPROVER_requires(HFRESH(vb->vd->vi, sizeof(vorbis_info)) && vb->vd->vi->rate >= 1)
  __CPROVER_requires(HFRESH(vb->vd->vi->codec_setup, sizeof(codec_setup_info)))
  __CPROVER_requires(CI_OF(vb)->blocksizes[0] >= 64 && CI_OF(vb)->blocksizes[1] <= 8192 &&
                     CI_OF(vb)->blocksizes[0] <= CI_OF(vb)->blocksizes[1])
  __CPROVER_requires(ALL_BLOBS_FRESH(vb))
  __CPROVER_requires(BM_OF(vb)->managed == 1 && INV_BM(BM_OF(vb), BI_OF(vb)))
  __CPROVER_requires(g_R0 == BM_OF(vb)->minmax_reservoir)
#if VERIF_LIMITS == 1
  __CPROVER_requires(BM_OF(vb)->max_bitsper > 0)
#elif VERIF_LIMITS == 2
  __CPROVER_requires(BM_OF(vb)->min_bitsper > 0)
#elif VERIF_LIMITS == 3
  __CPROVER_requires(BM_OF(vb)->min_bitsper > 0 && BM_OF(vb)->max_bitsper > 0)
#endif
#ifdef VERIF_BIAS
  /* bounded in one dimension: the reservoir bias is one of five fixed values
     (the double multiplication reservoir_bits*bias is what no back end decides
     symbolically within 40 min); everything else stays symbolic */
  __CPROVER_requires(BI_OF(vb)->reservoir_bias == VERIF_BIAS)
#endif
#ifdef VERIF_NOAVG
  __CPROVER_requires(BM_OF(vb)->avg_bitsper == 0)
  __CPROVER_requires(BM_OF(vb)->avgfloat >= -0.5 && BM_OF(vb)->avgfloat <= 14.49)
#endif
  __CPROVER_assigns(BM_OF(vb)->vb, BM_OF(vb)->choice, BM_OF(vb)->minmax_reservoir, BM_OF(vb)->avg_reservoir,
                    BM_OF(vb)->avgfloat, g_bits_written)
  __CPROVER_assigns(__CPROVER_object_whole(BLOB(vb, 0)), __CPROVER_object_whole(BLOB(vb, 1)),
                    __CPROVER_object_whole(BLOB(vb, 2)), __CPROVER_object_whole(BLOB(vb, 3)),
                    __CPROVER_object_whole(BLOB(vb, 4)), __CPROVER_object_whole(BLOB(vb, 5)),
                    __CPROVER_object_whole(BLOB(vb, 6)), __CPROVER_object_whole(BLOB(vb, 7)),
                    __CPROVER_object_whole(BLOB(vb, 8)), __CPROVER_object_whole(BLOB(vb, 9)),
                    __CPROVER_object_whole(BLOB(vb, 10)), __CPROVER_object_whole(BLOB(vb, 11)),
                    __CPROVER_object_whole(BLOB(vb, 12)), __CPROVER_object_whole(BLOB(vb, 13)),
                    __CPROVER_object_whole(BLOB(vb, 14)))
  __CPROVER_ensures(RV == 0)
  /* (1) the chosen blob index is in range */
  __CPROVER_ensures(BM_OF(vb)->choice >= 0 && BM_OF(vb)->choice < PACKETBLOBS)
  /* (2) THE invariant: the hard-limit reservoir stays inside [0, reservoir_bits] */
  __CPROVER_ensures(BM_OF(vb)->minmax_reservoir >= 0 &&
                    BM_OF(vb)->minmax_reservoir <= BI_OF(vb)->reservoir_bits)
  /* (3) with a hard maximum the reservoir is charged at least the excess of
         the emitted packet over the per-block budget ... */
  __CPROVER_ensures(BM_OF(vb)->max_bitsper > 0 ==>
     BM_OF(vb)->minmax_reservoir >= g_R0 + 8 * OPB_BYTES(BLOB(vb, BM_OF(vb)->choice)) -
                                   TARGET(vb, BM_OF(vb)->max_bitsper))
  /* (4) ... and with a hard minimum it is credited at most the shortfall */
  __CPROVER_ensures(BM_OF(vb)->min_bitsper > 0 ==>
     BM_OF(vb)->minmax_reservoir <= g_R0 + 8 * OPB_BYTES(BLOB(vb, BM_OF(vb)->choice)) -
                                   TARGET(vb, BM_OF(vb)->min_bitsper))
  __CPROVER_ensures(BM_OF(vb)->vb == vb)
#ifdef VERIF_ENFORCE_vorbis_bitrate_addblock
  REACH_ENSURES(BM_OF(vb)->minmax_reservoir != g_R0)
  REACH_ENSURES(BM_OF(vb)->choice == 0 && BM_OF(vb)->minmax_reservoir > g_R0)
#if VERIF_LIMITS == 3
  REACH_ENSURES(BM_OF(vb)->max_bitsper == BM_OF(vb)->min_bitsper)
  REACH_ENSURES(BM_OF(vb)->minmax_reservoir == 0 && g_R0 > 0)
#endif
#endif
  ;


/* ---- vorbis_bitrate_init: what the manager starts from (C14) -------------- */
#ifdef VERIF_UNIT_BRINIT
void vorbis_bitrate_init(vorbis_info *vi, bitrate_manager_state *bm)
  __CPROVER_requires(__CPROVER_rw_ok(vi, sizeof(*vi)) && __CPROVER_rw_ok(vi->codec_setup, sizeof(codec_setup_info)) &&
                     __CPROVER_rw_ok(bm, sizeof(*bm)) && vi->rate >= 1 && vi->rate <= (1L << 32))
#define ICI ((codec_setup_info *)vi->codec_setup)
  __CPROVER_requires(ICI->blocksizes[0] >= 64 && ICI->blocksizes[0] <= ICI->blocksizes[1] && ICI->blocksizes[1] <= 8192 &&
                     ((ICI->blocksizes[0] & (ICI->blocksizes[0] - 1)) == 0) && ((ICI->blocksizes[1] & (ICI->blocksizes[1] - 1)) == 0))
  /* what vorbis_encode_ctl(RATEMANAGE2_SET) lets through (unit enc_ctl) */
  __CPROVER_requires(ICI->bi.reservoir_bits <= (1L << 40) && ICI->bi.reservoir_bias >= 0. && ICI->bi.reservoir_bias <= 1.)
  __CPROVER_assigns(*bm)
  __CPROVER_ensures(ICI->bi.reservoir_bits <= 0 ==> (bm->managed == 0 && bm->minmax_reservoir == 0 && bm->vb == NULL))
  /* the reservoir starts inside [0, reservoir_bits] */
  __CPROVER_ensures(ICI->bi.reservoir_bits > 0 ==> (bm->managed == 1 && bm->minmax_reservoir >= 0 &&
                                                    bm->minmax_reservoir <= ICI->bi.reservoir_bits &&
                                                    bm->avg_reservoir == bm->minmax_reservoir &&
                                                    bm->short_per_long == ICI->blocksizes[1] / ICI->blocksizes[0] &&
                                                    bm->short_per_long >= 1 && bm->short_per_long <= 128 &&
                                                    bm->avgfloat == 7. && bm->vb == NULL && bm->choice == 0))
#ifdef VERIF_ENFORCE_vorbis_bitrate_init
  REACH_ENSURES(bm->managed == 1 && bm->minmax_reservoir == ICI->bi.reservoir_bits)
  REACH_ENSURES(bm->managed == 0)
#endif
  ;
#endif

/* ---- vorbis_bitrate_flushpacket: the packet handed out is the chosen blob (C14, C04, C05) */
#ifdef VERIF_UNIT_BRFLUSH
unsigned char *oggpack_get_buffer(oggpack_buffer *b) __CPROVER_assigns() __CPROVER_ensures(RV == b->buffer);
#define FB(vd) (&((private_state *)(vd)->backend_state)->bms)
/* ghost (set by the harness by assignment): the pending block and the blob the
   manager's choice designates (the middle blob when unmanaged) */
vorbis_block *g_fvb; oggpack_buffer *g_fblob;
int vorbis_bitrate_flushpacket(vorbis_dsp_state *vd, ogg_packet *op)
  __CPROVER_requires(__CPROVER_rw_ok(vd, sizeof(*vd)) && __CPROVER_rw_ok(vd->backend_state, sizeof(private_state)))
  __CPROVER_requires(op == NULL || __CPROVER_rw_ok(op, sizeof(*op)))
  /* vorbis_bitrate_addblock's postcondition (1) */
  __CPROVER_requires(FB(vd)->choice >= 0 && FB(vd)->choice < PACKETBLOBS && g_fvb == FB(vd)->vb)
  __CPROVER_requires(g_fvb == NULL || (g_fblob == ((vorbis_block_internal *)g_fvb->internal)->packetblob[FB(vd)->managed ? FB(vd)->choice : PACKETBLOBS / 2] && INV_OPBW(g_fblob)))
  __CPROVER_assigns(FB(vd)->vb)
  __CPROVER_assigns(op != NULL: *op)
  __CPROVER_ensures(RV == (g_fvb != NULL ? 1 : 0) && FB(vd)->vb == NULL)
  __CPROVER_ensures((RV == 1 && op != NULL) ==>
     (op->packet == g_fblob->buffer && op->bytes == OPB_BYTES(g_fblob) &&
      op->b_o_s == 0 && op->e_o_s == g_fvb->eofflag && op->granulepos == g_fvb->granulepos && op->packetno == g_fvb->sequence))
#ifdef VERIF_ENFORCE_vorbis_bitrate_flushpacket
  REACH_ENSURES(RV == 1 && op != NULL && FB(vd)->managed && FB(vd)->choice == 14)
  REACH_ENSURES(RV == 0)
#endif
  ;
#endif

#endif
