/* contracts for the position accessors of lib/vorbisfile.c - C07, C03, C12, C20 */
#ifndef VERIF_VF_TELL_SPEC_H
#define VERIF_VF_TELL_SPEC_H
#include "vf_open.spec.h"
int g_hs;
int vorbis_synthesis_halfrate_p(vorbis_info *vi) __CPROVER_assigns() __CPROVER_ensures(RV == g_hs);
/* the reported positions are exactly the handle's counters (which the read and
   seek contracts keep truthful); an unopened handle is refused; nothing is modified */
ogg_int64_t ov_raw_tell(OggVorbis_File *vf)
  __CPROVER_requires(FRESH(vf, sizeof(*vf))) __CPROVER_assigns()
  __CPROVER_ensures(RV == (vf->ready_state < OPENED ? (ogg_int64_t)OV_EINVAL : vf->offset));
ogg_int64_t ov_pcm_tell(OggVorbis_File *vf)
  __CPROVER_requires(FRESH(vf, sizeof(*vf))) __CPROVER_assigns()
  __CPROVER_ensures(RV == (vf->ready_state < OPENED ? (ogg_int64_t)OV_EINVAL : vf->pcm_offset));
long ov_streams(OggVorbis_File *vf) __CPROVER_requires(FRESH(vf, sizeof(*vf))) __CPROVER_assigns() __CPROVER_ensures(RV == vf->links);
long ov_seekable(OggVorbis_File *vf) __CPROVER_requires(FRESH(vf, sizeof(*vf))) __CPROVER_assigns() __CPROVER_ensures(RV == vf->seekable);
int ov_halfrate_p(OggVorbis_File *vf)
  __CPROVER_requires(FRESH(vf, sizeof(*vf)) && (vf->vi == NULL || FRESH(vf->vi, sizeof(vorbis_info)))) __CPROVER_assigns()
  __CPROVER_ensures(RV == (vf->vi == NULL ? OV_EINVAL : g_hs));
#endif
