/* contracts for the page layer of lib/vorbisfile.c: _get_data, _get_next_page
   (C03 bounded page search, C12 read failures / short reads / end of data) */
#ifndef VERIF_VF_PAGE_SPEC_H
#define VERIF_VF_PAGE_SPEC_H
#include "vf_open.spec.h"
#define RW(p, n) __CPROVER_rw_ok((p), (n))
int nondet_int(void); long nondet_long(void);
#define READSIZE_V 2048
extern __CPROVER_thread_local int __CPROVER_errno;   /* CBMC library cell behind errno */

/* ---- ghost ---------------------------------------------------------------- */
unsigned long g_read_calls;       /* invocations of the read callback */
long g_read_ret;                  /* what the last one returned */
int g_read_errno;                 /* errno after it */
unsigned long g_wrote_calls; long g_wrote_bytes;
char *g_syncbuf;                  /* buffer ogg_sync_buffer exposed */
int g_asked;                      /* the data source was asked for more (set by _get_data) */

/* the application's read callback: may fail (0 + errno), return short, or report
   end of data (0) at any call; never more than it was asked for */
size_t verif_read_cb(void *ptr, size_t size, size_t nmemb, void *datasource) {
  __CPROVER_assert(size == 1 && nmemb == READSIZE_V, "read callback asked for one READSIZE chunk");
  __CPROVER_assert(__CPROVER_w_ok(ptr, nmemb), "read callback's destination holds what is asked for");
  __CPROVER_assert(ptr == g_syncbuf, "read lands in the buffer ogg_sync_buffer exposed");
  size_t r = nondet_long(); __CPROVER_assume(r <= nmemb);
  if (r == 0 && nondet_int()) errno = 5; /* EIO */
  g_read_calls++; g_read_ret = (long)r; g_read_errno = errno;
  return r;
}
size_t (*const verif_cb_read_candidate)(void *, size_t, size_t, void *) = verif_read_cb;
/* ASSUMED libogg: ogg_sync_buffer exposes at least `size` writable bytes */
char *ogg_sync_buffer(ogg_sync_state *oy, long size) {
  __CPROVER_assert(size == READSIZE_V, "sync buffer request");
  g_syncbuf = malloc(size);
  return g_syncbuf;
}
int ogg_sync_wrote(ogg_sync_state *oy, long bytes) { g_wrote_calls++; g_wrote_bytes = bytes; return 0; }

#define OGG_MAXPAGE 65307L     /* 27 + 255 + 255*255 */
/* ASSUMED libogg + data source: >0 page of that many bytes, <0 that many bytes
   skipped, 0 need more data; the framer never consumes more bytes than the data
   source holds in total, and the data source is shorter than 2^61 bytes
   (g_remaining: bytes between the recorded position and the end of the data) */
long g_remaining, g_rem_in;
long ogg_sync_pageseek(ogg_sync_state *oy, ogg_page *og) {
  long r = nondet_long();
  __CPROVER_assume(r >= -g_remaining && r >= -(1L << 31) && r <= OGG_MAXPAGE && r <= g_remaining);
  if (r < 0) g_remaining += r; else g_remaining -= r;
  __CPROVER_havoc_object(og);
  return r;
}

static long _get_data(OggVorbis_File *vf)
  __CPROVER_requires(RW(vf, sizeof(*vf)) && (vf->callbacks.read_func == NULL || vf->callbacks.read_func == verif_read_cb))
#ifdef VERIF_ENFORCE__get_data
  __CPROVER_assigns(g_read_calls, g_read_ret, g_read_errno, g_wrote_calls, g_wrote_bytes, g_syncbuf, __CPROVER_errno)
  /* no callback: -1, nothing read; no data source: 0, nothing read */
  __CPROVER_ensures(vf->callbacks.read_func == NULL ==> (RV == -1 && g_read_calls == OLD(g_read_calls)))
  __CPROVER_ensures((vf->callbacks.read_func != NULL && vf->datasource == NULL) ==> (RV == 0 && g_read_calls == OLD(g_read_calls)))
  /* otherwise exactly one read of one chunk; what arrived - and only that - is committed to the framer */
  __CPROVER_ensures((vf->callbacks.read_func != NULL && vf->datasource != NULL) ==> (g_read_calls == OLD(g_read_calls) + 1 &&
                    (g_read_ret > 0 ? (RV == g_read_ret && g_wrote_calls == OLD(g_wrote_calls) + 1 && g_wrote_bytes == g_read_ret)
                                    : (g_wrote_calls == OLD(g_wrote_calls) && RV == (g_read_errno ? -1 : 0)))))
  __CPROVER_ensures(RV >= -1 && RV <= READSIZE_V)
  REACH_ENSURES(RV == -1 && g_read_calls == 1)
  REACH_ENSURES(RV == 0 && g_read_calls == 1)
  REACH_ENSURES(RV == 7)
#else
  /* the consequence _get_next_page needs (proved in unit vf_get_data) */
  __CPROVER_assigns(g_asked, vf->oy)
  __CPROVER_ensures(RV >= -1 && RV <= READSIZE_V && g_asked == 1)
#endif
  ;

#ifdef VERIF_ENFORCE__get_next_page
ogg_int64_t g_off_in;     /* vf->offset at entry */
static ogg_int64_t _get_next_page(OggVorbis_File *vf, ogg_page *og, ogg_int64_t boundary)
  __CPROVER_requires(RW(vf, sizeof(*vf)) && RW(og, sizeof(*og)) && vf->offset >= 0 && vf->offset < (1L << 61) && boundary >= -1 && boundary < (1L << 61))
  __CPROVER_requires(g_off_in == vf->offset && g_asked == 0 && g_remaining >= 0 && g_remaining < (1L << 61) && g_rem_in == g_remaining)
  __CPROVER_requires(vf->callbacks.read_func == NULL || vf->callbacks.read_func == verif_read_cb)
  __CPROVER_assigns(vf->offset, vf->oy, *og, g_asked, g_remaining)
  /* a page offset, or one of three documented codes */
  __CPROVER_ensures(RV >= 0 || RV == OV_FALSE || RV == OV_EOF || RV == OV_EREAD)
  /* the recorded position only moves forward; a page found starts at or after the
     old position and the position ends right behind it */
  __CPROVER_ensures(vf->offset >= g_off_in)
  __CPROVER_ensures(RV >= 0 ==> (RV >= g_off_in && vf->offset > RV && vf->offset - RV <= OGG_MAXPAGE))
  /* bounded search: a page is only accepted if it starts inside the window */
  __CPROVER_ensures((RV >= 0 && boundary > 0) ==> RV < g_off_in + boundary)
  /* boundary 0: cached data only - the data source is never asked */
  __CPROVER_ensures(boundary == 0 ==> g_asked == 0)
  /* end of data and read failure are told apart */
  __CPROVER_ensures((RV == OV_EOF || RV == OV_EREAD) ==> g_asked == 1)
#ifdef VERIF_ENFORCE__get_next_page
  REACH_ENSURES(RV >= 0 && boundary == 0)
  REACH_ENSURES(RV == OV_FALSE && boundary > 0)
  REACH_ENSURES(RV == OV_FALSE && boundary == 0)
  REACH_ENSURES(RV == OV_EOF)
  REACH_ENSURES(RV == OV_EREAD)
  REACH_ENSURES(RV > g_off_in + 100000 && boundary == -1)
#endif
  ;
#else
/* caller-facing form of the same contract (g_off_in := the position at entry; the
   finite-data ghosts are internal to the proof in unit vf_get_next_page) */
static ogg_int64_t _get_next_page(OggVorbis_File *vf, ogg_page *og, ogg_int64_t boundary)
  __CPROVER_requires(RW(vf, sizeof(*vf)) && RW(og, sizeof(*og)) && vf->offset >= 0 && vf->offset < (1L << 61) && boundary >= -1 && boundary < (1L << 61))
  __CPROVER_requires(vf->callbacks.read_func == NULL || vf->callbacks.read_func == verif_read_cb)
  __CPROVER_assigns(vf->offset, vf->oy, *og, g_asked)
  __CPROVER_ensures(RV >= 0 || RV == OV_FALSE || RV == OV_EOF || RV == OV_EREAD)
  __CPROVER_ensures(vf->offset >= OLD(vf->offset))
  __CPROVER_ensures(RV >= 0 ==> (RV >= OLD(vf->offset) && vf->offset > RV && vf->offset - RV <= OGG_MAXPAGE))
  __CPROVER_ensures((RV >= 0 && boundary > 0) ==> RV < OLD(vf->offset) + boundary);
#endif


/* ---- backward search (C03 anchors _get_prev_page, _get_prev_page_serial) ---- */
#ifdef VERIF_PREV
static ogg_int64_t _get_prev_page(OggVorbis_File *vf, ogg_int64_t begin, ogg_page *og)
  __CPROVER_requires(RW(vf, sizeof(*vf)) && RW(og, sizeof(*og)) && begin >= 0 && begin < (1L << 61))
  __CPROVER_requires(vf->callbacks.read_func == NULL || vf->callbacks.read_func == verif_read_cb)
  __CPROVER_requires(vf->callbacks.seek_func == NULL || vf->callbacks.seek_func == verif_seek_cb)
  __CPROVER_assigns(vf->offset, vf->oy, *og, g_asked, g_seek_calls, g_sync_resets)
  /* the offset of a page that starts before `begin`, or a documented code -
     whatever the callbacks do (fail, return short, report end of data); and it
     RETURNS: the search loop carries a decreases clause */
  __CPROVER_ensures((RV >= 0 && RV < begin) || RV == OV_EREAD || RV == OV_EFAULT || RV == OV_EBADLINK)
#ifdef VERIF_ENFORCE__get_prev_page
  REACH_ENSURES(RV >= 0 && begin > 200000 && RV < 10)
  REACH_ENSURES(RV == OV_EBADLINK)
  REACH_ENSURES(RV == OV_EREAD)
  REACH_ENSURES(RV == OV_EFAULT)
#endif
  ;
static ogg_int64_t _get_prev_page_serial(OggVorbis_File *vf, ogg_int64_t begin, long *serial_list, int serial_n, int *serialno, ogg_int64_t *granpos)
  __CPROVER_requires(RW(vf, sizeof(*vf)) && begin >= 0 && begin < (1L << 61) && RW(serialno, sizeof(int)) && RW(granpos, sizeof(ogg_int64_t)))
  __CPROVER_requires(vf->callbacks.read_func == NULL || vf->callbacks.read_func == verif_read_cb)
  __CPROVER_requires(vf->callbacks.seek_func == NULL || vf->callbacks.seek_func == verif_seek_cb)
  __CPROVER_assigns(vf->offset, vf->oy, *serialno, *granpos, g_asked, g_seek_calls, g_sync_resets)
  __CPROVER_ensures((RV >= 0 && RV < begin) || RV == OV_EREAD || RV == OV_EFAULT || RV == OV_EBADLINK)
#ifdef VERIF_ENFORCE__get_prev_page_serial
  REACH_ENSURES(RV >= 0 && begin > 200000 && RV < 10)
  REACH_ENSURES(RV == OV_EBADLINK)
  REACH_ENSURES(RV == OV_EREAD)
#endif
  ;
/* assumed libogg accessors; _lookup_serialno by contract (list walk, its own loop) */
int ogg_page_serialno(const ogg_page *og) __CPROVER_assigns() __CPROVER_ensures(1);
ogg_int64_t ogg_page_granulepos(const ogg_page *og) __CPROVER_assigns() __CPROVER_ensures(1);
static int _lookup_serialno(long s, long *serialno_list, int n)
  __CPROVER_assigns() __CPROVER_ensures(RV == 0 || RV == 1);
#endif
#endif
