/* contracts for lib/floor0.c: floor0_unpack (C02, C01, C13) */
#ifndef VERIF_FLOOR0_SPEC_H
#define VERIF_FLOOR0_SPEC_H
#include "assumed/ogg.spec.h"
#include "vorbis/codec.h"
#include "codec_internal.h"
#ifndef VERIF_MAXBOOKS
#define VERIF_MAXBOOKS 6
#endif
long g_b;
#define F0 ((vorbis_info_floor0 *)RV)
#define FCI ((codec_setup_info *)vi->codec_setup)
#define BOOK_OK(ci, k) ((k) >= 0 && (k) < (ci)->books && (ci)->book_param[k]->maptype != 0 && (ci)->book_param[k]->dim >= 1)
#define F0_HEAD_OK(info) ((info)->order >= 1 && (info)->order <= 255 && (info)->rate >= 1 && (info)->rate <= 65535 && \
   (info)->barkmap >= 1 && (info)->barkmap <= 65535 && (info)->ampbits >= 0 && (info)->ampbits <= 63 && \
   (info)->ampdB >= 0 && (info)->ampdB <= 255 && (info)->numbooks >= 1 && (info)->numbooks <= 16)
/* Vorbis I 6.2.1 (floor 0 header) */
static vorbis_info_floor *floor0_unpack(vorbis_info *vi, oggpack_buffer *opb)
  __CPROVER_requires(__CPROVER_rw_ok(vi, sizeof(*vi)) && __CPROVER_rw_ok(vi->codec_setup, sizeof(codec_setup_info)))
  __CPROVER_requires(FCI->books >= 1 && FCI->books <= VERIF_MAXBOOKS)
  __CPROVER_requires(FRESH(opb, sizeof(*opb)) && INV_OPB(opb))
  __CPROVER_assigns(opb->endbyte, opb->endbit, opb->ptr, g_bits_read)
  __CPROVER_ensures(RV == NULL || FRESH(RV, sizeof(vorbis_info_floor0)))
  __CPROVER_ensures(RV != NULL ==> F0_HEAD_OK(F0))
  /* every book of the list exists, is a value book and has dimensions (the LSP
     decoder divides by / steps through dim) */
  __CPROVER_ensures((RV != NULL && 0 <= g_b && g_b < F0->numbooks) ==> BOOK_OK(FCI, F0->books[g_b]))
  __CPROVER_ensures(RV != NULL ==> g_bits_read == OLD(g_bits_read) + 58 + 8UL * F0->numbooks)
#ifdef VERIF_ENFORCE_floor0_unpack
  REACH_ENSURES(RV != NULL && F0->numbooks == 16 && F0->books[15] == 3)
  REACH_ENSURES(RV == NULL)
#endif
  ;
#undef F0
#endif
