/* contracts for lib/floor1.c */
#ifndef VERIF_FLOOR1_SPEC_H
#define VERIF_FLOOR1_SPEC_H
#include "assumed/ogg.spec.h"
#include "vorbis/codec.h"
#include "codec_internal.h"

/* ASSUMED libc: qsort sorts.  Executable stand-in (insertion sort over the
   element array with the caller's comparator) for the bounded units. */
void qsort(void *base, size_t nmemb, size_t size, int (*compar)(const void *, const void *)) {
  void **b = (void **)base;   /* libvorbis only sorts arrays of pointers */
  __CPROVER_assert(size == sizeof(void *), "qsort model: pointer-sized elements");
  for (size_t i = 1; i < nmemb; i++)
    for (size_t j = i; j > 0 && compar(&b[j - 1], &b[j]) > 0; j--) {
      void *t = b[j]; b[j] = b[j - 1]; b[j - 1] = t;
    }
}

long g_a, g_b;   /* ghost post indices */
long g_p;        /* ghost partition / class index */
long g_s;

#define F1_COUNT2(i) ((i)->partitions < 1 ? 0 : (i)->class_dim[(i)->partitionclass[0]] + \
                      ((i)->partitions < 2 ? 0 : (i)->class_dim[(i)->partitionclass[1]]))

static vorbis_info_floor *floor1_unpack(vorbis_info *vi, oggpack_buffer *opb)
  __CPROVER_requires(FRESH(vi, sizeof(*vi)) && FRESH(vi->codec_setup, sizeof(codec_setup_info)))
  __CPROVER_requires(((codec_setup_info *)vi->codec_setup)->books >= 1 && ((codec_setup_info *)vi->codec_setup)->books <= 256)
  __CPROVER_requires(FRESH(opb, sizeof(*opb)) && INV_OPB(opb))
  __CPROVER_assigns(opb->endbyte, opb->endbit, opb->ptr, g_bits_read)
  __CPROVER_ensures(RV == NULL || FRESH(RV, sizeof(vorbis_info_floor1)))
#define F1 ((vorbis_info_floor1 *)RV)
#define BOOKS (((codec_setup_info *)vi->codec_setup)->books)
  __CPROVER_ensures(RV != NULL ==> (F1->partitions >= 0 && F1->partitions <= VIF_PARTS && F1->mult >= 1 && F1->mult <= 4))
  __CPROVER_ensures((RV != NULL && 0 <= g_p && g_p < F1->partitions) ==>
                    (F1->partitionclass[g_p] >= 0 && F1->partitionclass[g_p] < VIF_CLASS &&
                     F1->class_dim[F1->partitionclass[g_p]] >= 1 && F1->class_dim[F1->partitionclass[g_p]] <= 8 &&
                     F1->class_subs[F1->partitionclass[g_p]] >= 0 && F1->class_subs[F1->partitionclass[g_p]] <= 3 &&
                     F1->class_book[F1->partitionclass[g_p]] >= 0 && F1->class_book[F1->partitionclass[g_p]] < BOOKS))
  __CPROVER_ensures((RV != NULL && 0 <= g_p && g_p < F1->partitions && 0 <= g_s &&
                     g_s < (1 << F1->class_subs[F1->partitionclass[g_p]])) ==>
                    (F1->class_subbook[F1->partitionclass[g_p]][g_s] >= -1 && F1->class_subbook[F1->partitionclass[g_p]][g_s] < BOOKS))
  /* posts: 0 and the range end are implicit, every transmitted post lies below
     the range end, and NO TWO POSTS (implicit ones included) coincide - a
     repeated x would give a zero-length segment, i.e. a division by zero in
     the line renderer */
  __CPROVER_ensures(RV != NULL ==> (F1->postlist[0] == 0 && F1->postlist[1] >= 1 && F1->postlist[1] <= 32768))
#ifdef VERIF_F1_BOUNDED
  __CPROVER_ensures((RV != NULL && F1->partitions <= 2 && 0 <= g_a && g_a < g_b && g_b < F1_COUNT2(F1) + 2) ==>
                    (F1->postlist[g_a] != F1->postlist[g_b] && F1->postlist[g_b] <= F1->postlist[1] && F1->postlist[g_b] >= 0))
#endif
  ;
#undef F1
#undef BOOKS
#endif
