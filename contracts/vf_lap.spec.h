/* contract for _ov_64_seek_lap (lib/vorbisfile.c; body of ov_raw_seek_lap,
   ov_pcm_seek_lap, ov_pcm_seek_page_lap) - C19 order of effects, C03 (the splice
   is told about the NEW link: channel count, lap size and window are re-read
   after the seek, which may have moved to another link) */
#ifndef VERIF_VF_LAP_SPEC_H
#define VERIF_VF_LAP_SPEC_H
#include "vf_open.spec.h"
#define RW(p, n) __CPROVER_rw_ok((p), (n))
int nondet_int(void);
#define LAP_LINKS 2
extern const void *__CPROVER_alloca_object;   /* CBMC-internal bookkeeping cell written by its alloca model */
/* ---- ghost ------------------------------------------------------------------ */
OggVorbis_File *g_vf;
int g_hsflag;                                   /* half-rate flag (same on every link) */
long g_bs0[LAP_LINKS];                          /* short block size per link */
float *g_win[LAP_LINKS];                        /* short window per link */
int g_link_at_getlap = -1, g_seek_ret, g_prime_ret = 1;
int g_getlap_calls, g_seek_calls_l, g_prime_calls, g_lapout_calls, g_splice_calls;
float **g_lappcm, **g_pcm; int g_lap_n;
int g_s_n1, g_s_n2, g_s_ch1, g_s_ch2; const float *g_s_w1, *g_s_w2; float **g_s_pcm, **g_s_lap;
#define CUR(vf) ((vf)->current_link)

/* external callees: body-ful stubs keyed by the link the handle is on */
int vorbis_synthesis_halfrate_p(vorbis_info *vi) { return g_hsflag; }
int vorbis_info_blocksize(vorbis_info *vi, int zo) {
  __CPROVER_assert(zo == 0, "lap size comes from the SHORT block size");
  __CPROVER_assert(vi == g_vf->vi || vi == g_vf->vi + 1, "block size asked of an info in the handle's table");
  return g_bs0[vi == g_vf->vi ? 0 : 1];
}
const float *vorbis_window(vorbis_dsp_state *v, int W) {
  __CPROVER_assert(W == 0 && v == &g_vf->vd, "short window of the handle's decoder");
  return g_win[CUR(g_vf)];
}
/* the decoder's contiguous view (unit blk_lapout): one row per channel OF THE CURRENT LINK */
int vorbis_synthesis_lapout(vorbis_dsp_state *v, float ***pcm) {
  __CPROVER_assert(g_prime_calls == 1 && g_prime_ret == 0, "buffer exposed only after the decoder was primed at the new position");
  int ch = g_vf->vi[CUR(g_vf)].channels;
  g_pcm = malloc(sizeof(float *) * ch);
  *pcm = g_pcm; g_lapout_calls++;
  return nondet_int();
}
/* the plain seek handed in by the public wrappers: may move to any link, may fail */
int verif_localseek(OggVorbis_File *vf, ogg_int64_t pos) {
  __CPROVER_assert(g_getlap_calls == 1 && g_seek_calls_l == 0, "lap data is collected BEFORE the seek, and the seek runs once");
  int l = nondet_int(); __CPROVER_assume(l >= 0 && l < vf->links);
  vf->current_link = l;
  g_seek_calls_l++; g_seek_ret = nondet_int();
  return g_seek_ret;
}
#endif
