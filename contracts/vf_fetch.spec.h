/* contract for _fetch_and_process_packet (lib/vorbisfile.c) - C03, C07, C09, C12 */
#ifndef VERIF_VF_FETCH_SPEC_H
#define VERIF_VF_FETCH_SPEC_H
#include "vf_access.spec.h"

/* ---- ghost ---------------------------------------------------------------- */
int g_hs;                       /* half-rate flag of the link */
ogg_int64_t g_syn_gp;           /* granule position of the packet vorbis_synthesis accepted */
long g_syn_eos;                 /* its end-of-stream flag */
int g_syn_ok;                   /* vorbis_synthesis accepted a packet */
int g_avail;                    /* samples pending in the decoder after blockin */
int g_blockin_calls;
ogg_int64_t g_off0;             /* vf->pcm_offset at entry */

/* ---- callees: stubs with bodies where a ghost must be recorded, contracts otherwise */
int nondet_int(void);
int vorbis_synthesis(vorbis_block *vb, ogg_packet *op) {
  int r = nondet_int();
  if (r == 0) { g_syn_ok = 1; g_syn_gp = op->granulepos; g_syn_eos = op->e_o_s; }
  return r;
}
int vorbis_synthesis_pcmout(vorbis_dsp_state *v, float ***pcm) {
  __CPROVER_assert(pcm == NULL, "vorbisfile only asks for the pending count here");
  return g_blockin_calls ? g_avail : nondet_int();
}
int vorbis_synthesis_blockin(vorbis_dsp_state *v, vorbis_block *vb) {
  g_blockin_calls++;
  g_avail = nondet_int();
  __CPROVER_assume(g_avail >= 0 && g_avail <= 8192);
  return 0;
}
int vorbis_synthesis_halfrate_p(vorbis_info *vi) __CPROVER_assigns() __CPROVER_ensures(RV == g_hs);
/* ASSUMED libogg: body-ful stub (the packet is a local of the loop body in the
   caller; 6.11 cannot name it in a callee assigns clause): -1 hole, 0 none, 1 a
   packet with arbitrary granule position / flags and a sane byte count */
long nondet_long(void);
int ogg_stream_packetout(ogg_stream_state *os, ogg_packet *op) {
  __CPROVER_assert(op != NULL, "packetout: packet cell");
  int r = nondet_int();
  __CPROVER_assume(r == -1 || r == 0 || r == 1);
  op->granulepos = nondet_long(); op->e_o_s = nondet_long(); op->b_o_s = nondet_long(); op->packetno = nondet_long();
  op->bytes = nondet_long(); op->packet = NULL;
  __CPROVER_assume(op->bytes >= 0 && op->bytes < (1L << 32));
  return r;
}
int ogg_stream_pagein(ogg_stream_state *os, ogg_page *og) __CPROVER_assigns(*os) __CPROVER_ensures(RV == 0 || RV == -1);
int ogg_stream_reset_serialno(ogg_stream_state *os, int serialno) __CPROVER_assigns(*os) __CPROVER_ensures(1);
int ogg_page_bos(const ogg_page *og) __CPROVER_assigns() __CPROVER_ensures(1);
int ogg_page_serialno(const ogg_page *og) __CPROVER_assigns() __CPROVER_ensures(1);
void vorbis_info_clear(vorbis_info *vi) __CPROVER_assigns(*vi) __CPROVER_ensures(1);
void vorbis_comment_clear(vorbis_comment *vc) __CPROVER_assigns(*vc) __CPROVER_ensures(1);

static ogg_int64_t _get_next_page(OggVorbis_File *vf, ogg_page *og, ogg_int64_t boundary)
  __CPROVER_assigns(vf->offset, vf->oy, *og)
  __CPROVER_ensures((RV == OV_FALSE || RV == OV_EOF || RV == OV_EREAD || RV >= 0) && og->header_len >= 0 && og->header_len <= 282);
static void _decode_clear(OggVorbis_File *vf)
  __CPROVER_assigns(vf->vd, vf->vb, vf->ready_state) __CPROVER_ensures(vf->ready_state == OPENED);
static int _make_decode_ready(OggVorbis_File *vf)
  __CPROVER_requires(vf->ready_state >= OPENED && (!vf->seekable || (vf->current_link >= 0 && vf->current_link < vf->links)))
  __CPROVER_assigns(vf->vd, vf->vb, vf->ready_state, vf->bittrack, vf->samptrack)
  __CPROVER_ensures(RV == 0 || RV == OV_EFAULT || RV == OV_EBADHEADER)
  __CPROVER_ensures(RV == 0 ==> vf->ready_state == INITSET)
  __CPROVER_ensures(RV != 0 ==> vf->ready_state == OLD(vf->ready_state));
static int _fetch_headers(OggVorbis_File *vf, vorbis_info *vi, vorbis_comment *vc, long **serialno_list, int *serialno_n, ogg_page *og_ptr)
  __CPROVER_requires(serialno_list == NULL && serialno_n == NULL && og_ptr != NULL && vi == vf->vi && vc == vf->vc)
  __CPROVER_assigns(vf->offset, vf->oy, vf->os, vf->ready_state, *vi, *vc, *og_ptr)
  __CPROVER_ensures(RV <= 0 && (RV == 0 ==> vf->ready_state == STREAMSET) && (RV != 0 ==> vf->ready_state == OPENED));

/* handle as the callers hold it: tables for <= VF_MAXLINKS links; a streaming
   (non-seekable) handle has ONE table slot while current_link counts the chained
   links it has walked through */
#define FETCH_PRE(vf) (FRESH(vf, sizeof(OggVorbis_File)) && ((vf)->seekable == 0 || (vf)->seekable == 1) && \
   (vf)->ready_state >= OPENED && (vf)->ready_state <= INITSET && (vf)->links >= 1 && (vf)->links <= VF_MAXLINKS && \
   FRESH((vf)->vi, sizeof(vorbis_info) * (vf)->links) && FRESH((vf)->vc, sizeof(vorbis_comment) * (vf)->links) && \
   ((vf)->seekable ? (FRESH((vf)->pcmlengths, sizeof(ogg_int64_t) * (2 * (vf)->links)) && \
                      FRESH((vf)->serialnos, sizeof(long) * (vf)->links) && \
                      (vf)->current_link >= 0 && (vf)->current_link < (vf)->links) \
                   : ((vf)->links == 1 && (vf)->pcmlengths == NULL && (vf)->serialnos == NULL && \
                      (vf)->current_link >= 0 && (vf)->current_link < (1 << 30))))
/* what every loop of the function keeps: nothing accepted yet, position untouched */
#define FETCH_LOOP_INV(vf) ((vf)->ready_state >= OPENED && (vf)->ready_state <= INITSET && op_in == NULL && \
   ((vf)->seekable ? ((vf)->current_link >= 0 && (vf)->current_link < (vf)->links) : ((vf)->current_link >= 0)) && \
   g_syn_ok == 0 && g_blockin_calls == 0 && (vf)->pcm_offset == g_off0)
#define FL(vf) ((vf)->seekable ? (vf)->current_link : 0)
#define PLEN(vf, i) ((i) < FL(vf) ? (vf)->pcmlengths[2 * (i) + 1] : 0)
/* C07 / C09: position of the first sample still pending after a packet that
   carries a granule position G (not the end-of-stream packet): G minus the link's
   initial offset (never below 0), minus the pending samples in full-rate units,
   plus the lengths of all preceding links */
#define FETCH_POS(vf) ((((vf)->seekable && FL(vf) > 0) ? (g_syn_gp - (vf)->pcmlengths[2 * FL(vf)] < 0 ? 0 : g_syn_gp - (vf)->pcmlengths[2 * FL(vf)]) \
                                                        : (g_syn_gp < 0 ? 0 : g_syn_gp)) - ((ogg_int64_t)(g_avail << g_hs)) + \
                       PLEN(vf, 0) + PLEN(vf, 1) + PLEN(vf, 2))

static int _fetch_and_process_packet(OggVorbis_File *vf, ogg_packet *op_in, int readp, int spanp)
  /* every call site passes op_in == NULL */
  __CPROVER_requires(FETCH_PRE(vf) && op_in == NULL)
  __CPROVER_requires((g_hs == 0 || g_hs == 1) && g_syn_ok == 0 && g_blockin_calls == 0 && g_off0 == vf->pcm_offset)
  __CPROVER_assigns(vf->offset, vf->pcm_offset, vf->ready_state, vf->current_serialno, vf->current_link, vf->bittrack, vf->samptrack,
                    vf->oy, vf->os, vf->vd, vf->vb, g_syn_gp, g_syn_eos, g_syn_ok, g_avail, g_blockin_calls)
  __CPROVER_assigns(__CPROVER_object_whole(vf->vi), __CPROVER_object_whole(vf->vc))
  __CPROVER_ensures(RV <= 1 && (readp != 0 ==> RV != 0))
  __CPROVER_ensures(vf->ready_state >= OPENED && vf->ready_state <= INITSET)
  /* the link index stays inside the tables of a seekable handle */
  __CPROVER_ensures(vf->seekable ==> (vf->current_link >= 0 && vf->current_link < vf->links))
  __CPROVER_ensures(RV == 1 <==> g_syn_ok)
  __CPROVER_ensures(RV == 1 ==> (g_blockin_calls == 1 && vf->ready_state == INITSET))
  /* the position is recomputed exactly when the accepted packet carries a granule
     position and is not the last of its stream; otherwise it is left alone */
  __CPROVER_ensures((RV == 1 && g_syn_gp != -1 && !g_syn_eos) ==> vf->pcm_offset == FETCH_POS(vf))
  __CPROVER_ensures((RV != 1 || g_syn_gp == -1 || g_syn_eos) ==> vf->pcm_offset == g_off0)
#ifdef VERIF_ENFORCE__fetch_and_process_packet
  REACH_ENSURES(RV == 1 && g_syn_gp != -1 && !g_syn_eos && vf->seekable && vf->current_link == 2)
  REACH_ENSURES(RV == 1 && !vf->seekable && vf->current_link == 3 && g_syn_gp != -1 && !g_syn_eos)
  REACH_ENSURES(RV == OV_EOF)
  REACH_ENSURES(RV == OV_HOLE)
  REACH_ENSURES(RV == 0)
#endif
  ;
#endif
