from tools.driver import Unit
BIAS = {"000": "0.0", "025": "0.25", "050": "0.5", "075": "0.75", "100": "1.0"}
LIM = {1: "hard maximum only", 2: "hard minimum only", 3: "minimum and maximum (incl. CBR)"}
UNITS = [
  Unit("bitrate_addblock_l%d_w%d" % (l, w), ["C14"], "lib/bitrate.c", enforce="vorbis_bitrate_addblock", harness="h_bitrate_addblock.c", entry="h_bitrate_addblock",
       replace=["oggpack_bytes", "oggpack_writetrunc", "oggpack_write"], loops="bitrate_addblock5.loops",
       unwindset=["vorbis_bitrate_addblock.0:17","vorbis_bitrate_addblock.1:17","vorbis_bitrate_addblock.2:17","vorbis_bitrate_addblock.3:17", "h_bitrate_addblock.0:16"],
       defines=["VERIF_NOAVG", "VERIF_LIMITS=%d" % l, "VERIF_W=%d" % w], reach=(4 if l == 3 else 2), timeout=1500, shards=8, resplit=1,
       assumed=["reservoir_bits >= 8 (below one byte the byte granularity of packets makes the bound unattainable: counterexample reservoir=3 bits, CBR)",
                "avg_bitsper == 0 (no average-bitrate tracking: max-only, min-only, min+max, CBR); the ABR floater is double arithmetic no back end decides",
                "exhaustive case split over (active limits, block flag): units l1..l3 x w0,w1"],
       note="hard min/max reservoir invariant 0 <= R' <= reservoir_bits and per-block accounting; case: %s, W=%d; all sizes, rates, reservoir, bias symbolic" % (LIM[l], w))
  for l in (1, 2, 3) for w in (0, 1)
]

# quick tier: the named postconditions (reservoir invariant, per-block accounting,
# choice range) of the max-only and min-only cases; the safety obligations of the
# same units are decided in the thorough tier
UNITS += [
  Unit("bitrate_addblock_l%d_w%d_inv" % (l, w), ["C14"], "lib/bitrate.c", enforce="vorbis_bitrate_addblock", harness="h_bitrate_addblock.c", entry="h_bitrate_addblock",
       replace=["oggpack_bytes", "oggpack_writetrunc", "oggpack_write"], loops="bitrate_addblock5.loops",
       unwindset=["vorbis_bitrate_addblock.0:17","vorbis_bitrate_addblock.1:17","vorbis_bitrate_addblock.2:17","vorbis_bitrate_addblock.3:17", "h_bitrate_addblock.0:16"],
       defines=["VERIF_NOAVG", "VERIF_LIMITS=%d" % l, "VERIF_W=%d" % w], reach=2, timeout=1500, shards=8, only_props=r"postcondition|loop_|unwind",
       assumed=["reservoir_bits >= 8", "avg_bitsper == 0", "obligation subset: contract postconditions, loop-contract and unwinding obligations only (all obligations in the thorough tier)"],
       note="quick subset: reservoir invariant and per-block accounting; case: %s, W=%d" % (LIM[l], w))
  for l, w in ((1, 0), (2, 0))
]
for u in UNITS:
    u.tier = "thorough"   # incl. the _inv subset: > 900 s on the check machine (vp check 4), too slow for the every-change tier
UNITS += [
  Unit("bitrate_init", ["C14"], "lib/bitrate.c", enforce="vorbis_bitrate_init", harness="h_bitrate_small.c", entry="h_bitrate_init",
       defines=["VERIF_UNIT_BRINIT"], reach=2, timeout=600,
       assumed=["reservoir_bits <= 2^40; bias in [0,1] as the control interface guarantees (unit enc_ctl)"],
       note="manager start state: disabled and zeroed without a reservoir; otherwise the reservoir starts inside [0, reservoir_bits] (double multiply + conversion, bit-precise), short_per_long = bs1/bs0, choice 0, no block pending"),
  Unit("bitrate_flushpacket", ["C14", "C04", "C05"], "lib/bitrate.c", enforce="vorbis_bitrate_flushpacket", harness="h_bitrate_small.c", entry="h_bitrate_flush",
       defines=["VERIF_UNIT_BRFLUSH"], replace=["oggpack_bytes", "oggpack_get_buffer"], unwindset=["h_bitrate_flush.0:16"], reach=2, timeout=600,
       note="the packet handed out is exactly the blob the manager chose (the middle one when unmanaged): buffer, byte count, granule position, end-of-stream flag, sequence number of the block; the pending block is consumed once"),
]
