from tools.driver import Unit
UNITS = [
  Unit("bitrate_addblock_noavg", ["C14"], "lib/bitrate.c", enforce="vorbis_bitrate_addblock", harness="h_bitrate_addblock.c", entry="h_bitrate_addblock",
       replace=["oggpack_bytes", "oggpack_writetrunc", "oggpack_write"], loops="bitrate_addblock.loops",
       defines=["VERIF_NOAVG"], unwindset=["vorbis_bitrate_addblock.0:17","vorbis_bitrate_addblock.1:17","vorbis_bitrate_addblock.2:17","vorbis_bitrate_addblock.3:17"], reach=5, timeout=600, shards=16,
       note="hard min/max reservoir invariant and per-block accounting, avg_bitsper==0 (max-only, min-only, min+max, CBR without average tracking)"),
]
