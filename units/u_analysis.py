from tools.driver import Unit
UNITS = [
  Unit("ana_analysis", ["C05", "C14"], "lib/analysis.c", enforce="vorbis_analysis", harness="h_analysis.c", entry="h_analysis",
       replace=["verif_mapping_forward", "vorbis_bitrate_managed", "oggpack_get_buffer", "oggpack_bytes"],
       unwindset=["h_analysis.0:16", "vorbis_analysis.0:16"], reach=2, timeout=600,
       assumed=["mapping type 0's function bundle holds a contract stub in its forward slot (the real slot holds mapping0_forward, which appends one candidate packet per blob)",
                "oggpack_reset as a body-ful stub (rewinds the buffer)"],
       note="block analysis entry: EVERY one of the 15 candidate packet buffers is rewound (ghost index) and the bit statistics zeroed before the mapping back end runs; direct packet output refused under bitrate management; otherwise the packet carries the block's granule position / eos flag"),
]
