from tools.driver import Unit
UNITS = [
  Unit("vf_seek_helper", ["C12", "C03"], "lib/vorbisfile.c", enforce="_seek_helper", replace=["verif_seek_cb", "ogg_sync_reset"], reach=3,
       assumed=["seek callback obeys its stub contract (returns 0 or -1)"],
       note="failed seek (missing callback or -1) leaves vf->offset and the sync state alone; OV_EFAULT without a data source"),
  Unit("vf_ov_open2", ["C03", "C12", "C13"], "lib/vorbisfile.c", enforce="_ov_open2", replace=["_open_seekable2", "ov_clear"], reach=3,
       note="second stage of open: failure => handle cleared, close callback NOT run, data source detached before ov_clear"),
]
UNITS += [
  Unit("vf_halfrate", ["C20"], "lib/vorbisfile.c", enforce="ov_halfrate", rec=True, kind="B", unwind=5,
       replace=["vorbis_dsp_clear", "vorbis_block_clear", "ov_pcm_seek", "vorbis_synthesis_halfrate"], reach=3,
       bound="<= 3 links (link loop unwound); everything else symbolic",
       note="ov_halfrate: all links switched or, on refusal, all links back to full rate; switching off never fails"),
]
