from tools.driver import Unit
UNITS = [
  Unit("vf_seek_helper", ["C12", "C03"], "lib/vorbisfile.c", enforce="_seek_helper", replace=["verif_seek_cb", "ogg_sync_reset"], reach=3,
       assumed=["seek callback obeys its stub contract (returns 0 or -1)"],
       note="failed seek (missing callback or -1) leaves vf->offset and the sync state alone; OV_EFAULT without a data source"),
  Unit("vf_ov_open2", ["C03", "C12", "C13"], "lib/vorbisfile.c", enforce="_ov_open2", replace=["_open_seekable2", "ov_clear"], reach=3,
       note="second stage of open: failure => handle cleared, close callback NOT run, data source detached before ov_clear"),
]
UNITS += [
  Unit("vf_halfrate", ["C20"], "lib/vorbisfile.c", enforce="ov_halfrate", rec=True, kind="B", unwind=5,
       replace=["vorbis_dsp_clear", "vorbis_block_clear", "ov_pcm_seek", "vorbis_synthesis_halfrate"], reach=3,
       bound="<= 3 links (link loop unwound); everything else symbolic",
       note="ov_halfrate: all links switched or, on refusal, all links back to full rate; switching off never fails"),
]
UNITS += [
  Unit("vf_splice_j%d_i%d" % (j, i), ["C19", "C03"], "lib/vorbisfile.c", enforce="_ov_splice", harness="h_vf_splice.c", entry="h_vf_splice",
       kind="B", unwind=4, reach=0, timeout=900, defines=["VERIF_GJ=%d" % j, "VERIF_GI=%d" % i, "SPL_MAX=2"], smt_props=r"_ov_splice\.postcondition", shards=2, no_slice=True,
       bound="<= 2 channels on each side, lap sizes n1,n2 <= 2; every float (audio, lap data, both windows) symbolic; rows and windows sized exactly so any access beyond min(n1,n2) is out of bounds; output position (channel %d, sample %d)" % (j, i),
       note="cross-lap splice: squared-window cross-fade over min(n1,n2) with the window of that size, fade-in from silence for extra channels, nothing else modified")
  for j in (0, 1) for i in (0, 1)
]
for u in UNITS:
    if u.name.startswith("vf_splice"):
        u.timeout = 1800
        if u.name not in ("vf_splice_j0_i0", "vf_splice_j1_i1"):
            u.tier = "thorough"
