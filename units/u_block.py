from tools.driver import Unit
UNITS = [
  Unit("blk_blockin", ["C01", "C02", "C04", "C07", "C11", "C20"], "lib/block.c", enforce="vorbis_synthesis_blockin", loops="block_synth.loops",
       unwindset=["mk_vd.0:3", "mk_vd.1:9", "mk_vb.0:3"], reach=6, timeout=900, objbits=8, shards=12,
       assumed=["channels <= 2, each accumulator row a separate object (shape (i) of DESIGN 4.1); block sizes, half-rate flag, window flags, positions all symbolic",
                "_vorbis_window_get stub: table n holds 32<<n floats (window.c's tables have exactly these sizes); window VALUES are not used",
                "granule positions and sample counts below 2^62 in magnitude (no 64-bit wrap-around)"],
       note="overlap-add entry point: refusal changes nothing; window history always advances; samples made available = (bs[lW]/4+bs[W]/4)>>hs, none for the first block; end/start trimming in full-rate units; sequence gap forgets the position; only the lapped span and the copied half of each row are written (ghost index); all indices in bounds for every block-size pair and both rates"),
]
SM_ASSUMED = ["channels <= 2, each accumulator row a separate object; block sizes, half-rate flag, marks symbolic"]
UNITS += [
  Unit("blk_pcmout", ["C02", "C01", "C07"], "lib/block.c", enforce="vorbis_synthesis_pcmout", loops="block_synth.loops", harness="h_blk_small.c",
       defines=["H_PCMOUT"], unwindset=["mk_vd.0:3", "mk_vd.1:9"], reach=2, objbits=8, assumed=SM_ASSUMED,
       note="samples ready = write mark - read mark, none while the position is unset (also for a wrapped negative read mark); rows handed out lie inside the accumulator"),
  Unit("blk_read", ["C02", "C07"], "lib/block.c", enforce="vorbis_synthesis_read", loops="block_synth.loops", harness="h_blk_small.c",
       defines=["H_READ"], unwindset=["mk_vd.0:3", "mk_vd.1:9"], reach=2, objbits=8, assumed=SM_ASSUMED,
       note="consuming more than is pending is refused and consumes nothing; otherwise the read mark advances by exactly n"),
  Unit("blk_restart", ["C11", "C07", "C02", "C20"], "lib/block.c", enforce="vorbis_synthesis_restart", loops="block_synth.loops", harness="h_blk_small.c",
       defines=["H_RESTART"], unwindset=["mk_vd.0:3", "mk_vd.1:9"], reach=2, objbits=8, assumed=SM_ASSUMED,
       note="restart forgets position, sequence, sample count and pending samples; the next block is a first block; -1 on an uninitialised state"),
  Unit("blk_lapout", ["C19", "C02"], "lib/block.c", enforce="vorbis_synthesis_lapout", loops="block_synth.loops", harness="h_blk_small.c",
       defines=["H_LAPOUT"], unwindset=["mk_vd.0:3", "mk_vd.1:9"], reach=3, objbits=8, assumed=SM_ASSUMED,
       note="lapout: marks move together (unwrap, then short/long padding shift), exposes n1+n-returned samples that lie inside the row, for every block-size pair, window history and both rates"),
]
UNITS += [
  Unit("blk_alloc", ["C02", "C11", "C13"], "lib/block.c", enforce="_vorbis_block_alloc", loops="block_synth.loops", harness="h_blk_arena.c", entry="h_blk_alloc",
       reach=3, timeout=600, objbits=8, no_overflow=False,
       note="block-local arena: the region handed out lies inside the store and holds the requested bytes; regions handed out earlier stay allocated (the old store is parked on the reap chain and accounted, never freed here); top stays word aligned and within the store"),
]
UNITS += [
  Unit("blk_preextrapolate", ["C04"], "lib/block.c", enforce="_preextrapolate_helper", loops="block_ana.loops", harness="h_blk_preextra.c", entry="h_blk_preextra",
       replace=["vorbis_lpc_from_data", "vorbis_lpc_predict"], unwindset=["h_blk_preextra.0:3", "_preextrapolate_helper.2:3"], reach=2, timeout=1800, objbits=8, tier="thorough",
       assumed=["channels <= 2; lpc.c functions by contract (ranges read/written only; float values not used)", "stack budget 1 MiB per alloca request (contracts/common.h)"],
       note="start-of-stream extrapolation for ANY amount of submitted audio (up to 2^28 samples): scratch memory request within the stack budget, lpc ranges inside the buffers, the one-shot flag always set, marks unchanged"),
]
UNITS += [
  Unit("blk_analysis_wrote", ["C04", "C15"], "lib/block.c", enforce="vorbis_analysis_wrote", loops="block_ana.loops", harness="h_blk_wrote.c", entry="h_blk_wrote",
       replace=["vorbis_lpc_from_data", "vorbis_lpc_predict", "_preextrapolate_helper", "vorbis_analysis_buffer"],
       unwindset=["h_blk_wrote.0:3", "vorbis_analysis_wrote.0:3"], reach=4, timeout=900, objbits=8,
       assumed=["channels <= 2; lpc.c functions, _preextrapolate_helper (own unit) and vorbis_analysis_buffer by contract", "stack budget 1 MiB per alloca request"],
       note="sample submission: more than the buffer holds is refused and nothing is counted; otherwise exactly vals samples are counted; end of input records the number of real samples as the end mark and appends three long blocks of padding inside the (regrown) rows; start-of-stream extrapolation runs at most once"),
]
UNITS += [
  Unit("blk_analysis_blockout", ["C04", "C05"], "lib/block.c", enforce="vorbis_analysis_blockout", loops="block_ana.loops", harness="h_blk_blockout.c", entry="h_blk_blockout",
       replace=["_ve_envelope_search", "_ve_envelope_mark", "_ve_envelope_shift", "_vp_ampmax_decay", "_vorbis_block_ripcord", "_vorbis_block_alloc"],
       unwindset=["h_blk_blockout.0:3", "vorbis_analysis_blockout.0:3", "vorbis_analysis_blockout.1:3"], reach=4, timeout=900, objbits=8,
       assumed=["channels <= 2; the envelope search answers ANY of -1/0/1 (so the result holds for every sequence of block-size decisions)",
                "memcpy/memmove modelled as range checks + arbitrary destination bytes; _vorbis_block_alloc by contract (fresh region, unit blk_alloc)",
                "the encode-side invariant centerW == blocksizes[1]/2 is a precondition (vorbis_analysis_init establishes it; this contract re-establishes it)"],
       note="block production: no block => no state change; the block carries the position before the advance, consecutive sequence numbers and the state's window flags; window history chains; the centre returns to bs1/2; the granule position advances by the movement but never counts padding after the end mark (it stops exactly at the end mark: the last packet's granule position is the number of submitted samples); the block whose centre reaches the end mark is flagged end-of-stream and is the last; granule positions never decrease"),
]
UNITS += [
  Unit("blk_shared_init", ["C02", "C13", "C18", "C20"], "lib/block.c", enforce="_vds_shared_init", harness="h_blk_shared_init.c", entry="h_blk_shared_init",
       replace=["ov_ilog", "mdct_init", "drft_init", "_vp_psy_init", "vorbis_book_init_decode", "vorbis_book_init_encode", "vorbis_staticbook_destroy", "vorbis_book_clear", "vorbis_dsp_clear"],
       unwindset=["h_blk_shared_init.0:3", "h_blk_shared_init.1:2"] + ["_vds_shared_init.%d:3" % k for k in range(8)], reach=4, timeout=900, shards=8, objbits=11,
       assumed=["<= 2 books / floors / residues, <= 1 psy set-up, <= 2 channels in the harness-built set-up (all loops over them fully unwound with unwinding assertions)",
                "table builders (mdct, fft, psy), codebook init/clear, vorbis_dsp_clear by contract; floor/residue look builders as stubs behind the dispatch tables"],
       note="decode/encode state set-up for a vorbis_info in ANY state: every refusal leaves *v zeroed; a refused codebook set-up keeps no decode books and no static books (so a second init is refused again); success establishes the decode-state invariant (block geometry, window numbers, mode bits) with zero-filled accumulator rows and, on the decode side, the static books handed over"),
]
