from tools.driver import Unit
UNITS = [
  Unit("map0_unpack", ["C02", "C01", "C05", "C13"], "lib/mapping0.c", enforce="mapping0_unpack", replace=["oggpack_read", "ov_ilog"],
       loops="mapping0.loops", harness="h_map0_unpack.c", entry="h_map0_unpack", reach=3, leak=True, timeout=900, shards=8,
       note="mapping setup (Vorbis I 4.2.4): 1..16 submaps, <= 256 coupling steps each naming two different existing channels, every channel routed to an existing submap, every submap naming an existing floor and residue; exact bit layout; nothing leaked on reject"),
]
