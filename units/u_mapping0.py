from tools.driver import Unit
UNITS = [
  Unit("map0_unpack", ["C02", "C01", "C05", "C13"], "lib/mapping0.c", enforce="mapping0_unpack", replace=["oggpack_read", "ov_ilog"],
       loops="mapping0.loops", harness="h_map0_unpack.c", entry="h_map0_unpack", reach=3, leak=True, timeout=900, shards=8,
       note="mapping setup (Vorbis I 4.2.4): 1..16 submaps, <= 256 coupling steps each naming two different existing channels, every channel routed to an existing submap, every submap naming an existing floor and residue; exact bit layout; nothing leaked on reject"),
]
UNITS += [
  Unit("map0_inverse", ["C02", "C01", "C11", "C18"], "lib/mapping0.c", enforce="mapping0_inverse", loops="mapping0_inv.loops",
       harness="h_map0_inverse.c", entry="h_map0_inverse",
       unwindset=["h_map0_inverse.0:3", "h_map0_inverse.1:65", "h_map0_inverse.2:3", "h_map0_inverse.3:17", "h_map0_inverse.4:257",
                  "mapping0_inverse.0:3", "mapping0_inverse.2:3", "mapping0_inverse.6:3", "mapping0_inverse.7:3", "verif_res_inverse.0:3"],
       reach=2, timeout=1200, shards=8, objbits=9,
       assumed=["memset modelled as: bytes arbitrary, exact (0.0f) at the ghost index (contracts/mapping0_inv.spec.h)", "channels <= 2 (with two channels every coupling step couples channels 0 and 1); block sizes, submaps (1..16), coupling steps (0..256), floor/residue tables symbolic",
                "floor inverse1/inverse2, residue inverse and mdct_backward are body-ful stubs behind the dispatch tables that CHECK their arguments and call order and havoc the vectors; the tables' slots are assumed to hold the real back ends",
                "alloca requests checked against the stack budget (contracts/common.h)"],
       note="mapping decode: floor curves, then residue, then inverse coupling, then curve synthesis, then the inverse transform, each exactly once per channel/submap with its own vector; EVERY residue vector is zero when residue decode starts (ghost index; unused channels included); do-not-decode flags equal 'unused after coupling propagation in both directions'; bundles hold exactly the submap's channels; all table indices in bounds"),
]
