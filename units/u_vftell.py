from tools.driver import Unit
T = [("vf_raw_tell", "ov_raw_tell", "H_RAW", ["C03", "C12"], []), ("vf_pcm_tell", "ov_pcm_tell", "H_PCM", ["C07", "C03", "C12"], []),
     ("vf_streams", "ov_streams", "H_STREAMS", ["C03", "C09"], []), ("vf_seekable", "ov_seekable", "H_SEEKABLE", ["C03"], []),
     ("vf_halfrate_p", "ov_halfrate_p", "H_HRP", ["C20", "C03"], ["vorbis_synthesis_halfrate_p"])]
UNITS = [
  Unit(n, props, "lib/vorbisfile.c", enforce=f, harness="h_vf_tell.c", entry="h_" + n, defines=[d], replace=r, timeout=300,
       note="accessor: returns exactly the handle's counter (or OV_EINVAL for an unopened handle / missing info), modifies nothing")
  for (n, f, d, props, r) in T
]
