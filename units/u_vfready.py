from tools.driver import Unit
UNITS = [
  Unit("vf_make_decode_ready", ["C03", "C09", "C12"], "lib/vorbisfile.c", enforce="_make_decode_ready", harness="h_vf_ready.c", entry="h_vf_make_decode_ready",
       defines=["H_NAME=h_vf_make_decode_ready"], reach=4,
       assumed=["vorbis_synthesis_init / vorbis_block_init as body-ful stubs that CHECK their arguments (their own contracts: units blk_shared_init, syn_*); handle tables harness-built: `links` slots, a streaming handle exactly one"],
       note="decoder set-up for the current link: from slot current_link of a seekable handle, from THE slot of a streaming handle (whose current_link counts the links walked through and exceeds the table); the info pointer lies inside the table; failure => OV_EBADLINK with the state left at STREAMSET, success => INITSET with bitrate tracking reset; nothing happens when already set up / not on a link"),
  Unit("vf_decode_clear", ["C03", "C13"], "lib/vorbisfile.c", enforce="_decode_clear", harness="h_vf_ready.c", entry="h_vf_decode_clear",
       defines=["H_NAME=h_vf_decode_clear", "H_CLEAR"], reach=0,
       assumed=["vorbis_dsp_clear / vorbis_block_clear as counting stubs"],
       note="dumping the decode machine: decoder and block each cleared exactly once, state back to OPENED"),
]
