from tools.driver import Unit
RT_ASSUMED = ["lemma harness over the REAL pack and unpack functions of lib/info.c; the bit packer between them is the assumed executable model contracts/assumed/oggpack_model.h (differential-tested against the installed libogg by setup)",
              "no contract instrumentation: plain CBMC over the composed real functions, all loops bounded by format constants and fully unwound with unwinding assertions"]
UNITS = [
  Unit("rt_info", ["C05", "C01"], "lib/info.c", enforce=None, kind="L", harness="h_rt_info.c", entry="h_rt_info", defines=["H_RT_INFO"],
       extra_src=["lib/sharedbook.c"], unwind=34, timeout=900, assumed=RT_ASSUMED,
       note="ID header round trip for EVERY representable info (channels 1..255, rate < 2^32, any 32-bit bitrate fields, every legal block-size pair): produced, 30 bytes, accepted, same channels/rate/bitrates/block sizes, consumed to the last byte"),
  Unit("rt_comment", ["C16", "C05"], "lib/info.c", enforce=None, kind="B", harness="h_rt_info.c", entry="h_rt_comment", defines=["H_RT_COMMENT"],
       extra_src=["lib/sharedbook.c"], unwind=60, timeout=3000, tier="thorough", bound="<= 2 comments of <= 3 bytes each (any byte values, NULL entries, empty strings); vendor string of the library in full",
       assumed=RT_ASSUMED,
       note="comment header round trip: same count, lengths, bytes (ghost comment/byte), NULL entries as length 0, zero terminated on read, vendor string, consumed to the last byte"),
]
