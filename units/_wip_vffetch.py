from tools.driver import Unit
UNITS = [
  Unit("vf_fetch_packet", ["C03", "C07", "C09", "C12"], "lib/vorbisfile.c", enforce="_fetch_and_process_packet", harness="h_vf_fetch.c", entry="h_vf_fetch",
       replace=["vorbis_synthesis_halfrate_p", "ogg_stream_pagein", "ogg_stream_reset_serialno", "ogg_page_bos", "ogg_page_serialno",
                "vorbis_info_clear", "vorbis_comment_clear", "_get_next_page", "_decode_clear", "_make_decode_ready", "_fetch_headers"],
       defines=["VF_MAXLINKS=4"], loops="vf_fetch.loops", unwindset=["_fetch_and_process_packet.0:5", "_fetch_and_process_packet.3:6"], no_overflow=True, reach=5, timeout=900, shards=8,
       assumed=["<= 4 links (the position formula is written out for 3 preceding links); op_in == NULL as at every call site; termination of the data-driven loops not claimed", "vorbis_synthesis / blockin / pcmout as body-ful stubs recording the accepted packet and the pending count",
                "libogg page/stream functions, _get_next_page, _fetch_headers, _make_decode_ready, _decode_clear by assumed contracts",
                "64-bit position arithmetic treated as non-wrapping (no overflow check in this unit)"],
       note="packet fetch: link index stays inside the tables (a streaming handle never indexes pcmlengths), position recomputed from the granule position exactly as documented (initial offset of the link removed, clamped at 0, pending samples<<hs removed, preceding link lengths added), left alone otherwise"),
]
