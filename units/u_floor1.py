from tools.driver import Unit
UNITS = [
  Unit("floor1_unpack_b", ["C02", "C13"], "lib/floor1.c", enforce="floor1_unpack", replace=["oggpack_read"], kind="B", leak=True,
       harness="h_floor1_unpack.c", entry="h_floor1_unpack", defines=["VERIF_F1_BOUNDED"],
       unwind_cut=["floor1_unpack.0:3", "floor1_unpack.1:3", "floor1_unpack.2:5", "floor1_unpack.3:3", "floor1_unpack.4:5",
                   "floor1_unpack.5:7", "floor1_unpack.6:7", "qsort.0:7", "qsort.1:7"],
       reach=2, timeout=1800, shards=4, objbits=11, tier="thorough",
       bound="<= 2 partitions, <= 2 classes, <= 4 subbooks per class, <= 4 transmitted posts (loops cut); all field values symbolic; qsort modelled by insertion sort",
       note="floor 1 setup: field ranges, book indices below the book count, posts below the range end and pairwise distinct INCLUDING the two implicit posts; no leak on reject"),
]
