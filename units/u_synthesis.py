from tools.driver import Unit
UNITS = [
  Unit("syn_halfrate", ["C20", "C02"], "lib/synthesis.c", enforce="vorbis_synthesis_halfrate", reach=3,
       note="half-rate refused for 64-sample short blocks, flag normalised to 0/1, refusal changes nothing"),
  Unit("syn_halfrate_p", ["C20"], "lib/synthesis.c", enforce="vorbis_synthesis_halfrate_p", note="reports the flag"),
]
