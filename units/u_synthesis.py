from tools.driver import Unit
UNITS = [
  Unit("syn_halfrate", ["C20", "C02"], "lib/synthesis.c", enforce="vorbis_synthesis_halfrate", reach=3,
       note="half-rate refused for 64-sample short blocks, flag normalised to 0/1, refusal changes nothing"),
  Unit("syn_halfrate_p", ["C20"], "lib/synthesis.c", enforce="vorbis_synthesis_halfrate_p", note="reports the flag"),
]
SYN_ASSUMED = ["decode state built by the harness as vorbis_synthesis_init leaves it: mode table valid below `modes`, NULL beyond; every mapping of type 0; channels <= 2",
               "_vorbis_block_alloc stub (fresh region per call, recorded in order); _vorbis_block_ripcord by contract (block.c)",
               "mapping type 0's function bundle holds a contract stub in its inverse slot (the real slot holds mapping0_inverse)",
               "libogg bit reader by assumed contract"]
UNITS += [
  Unit("syn_synthesis", ["C02", "C01", "C11", "C05"], "lib/synthesis.c", enforce="vorbis_synthesis", harness="h_syn_packet.c", entry="h_syn_synthesis", defines=["H_SYN"],
       replace=["oggpack_read", "oggpack_readinit", "_vorbis_block_ripcord", "verif_mapping_inverse"],
       unwindset=["mk_vi.0:65", "mk_vi.1:65", "vorbis_synthesis.0:3"], reach=4, timeout=900, assumed=SYN_ASSUMED,
       note="audio packet header (Vorbis I 4.3.1): 1 type bit, ilog(modes-1) mode bits, two window bits for long blocks only; mode index below the mode count for every bit pattern; rows sized by the block size of the mode; the arena is recycled once; NO return leaves PCM pointers from before the recycling in the block"),
  Unit("syn_trackonly", ["C02", "C01", "C11", "C07"], "lib/synthesis.c", enforce="vorbis_synthesis_trackonly", harness="h_syn_packet.c", entry="h_syn_trackonly", defines=["H_TRACK"],
       replace=["oggpack_read", "oggpack_readinit", "_vorbis_block_ripcord"],
       unwindset=["mk_vi.0:65", "mk_vi.1:65"], reach=2, timeout=900, assumed=SYN_ASSUMED,
       note="track-only decode: same header layout, never any PCM in the block afterwards, whatever the outcome"),
  Unit("syn_blocksize", ["C02", "C01"], "lib/synthesis.c", enforce="vorbis_packet_blocksize", harness="h_syn_packet.c", entry="h_syn_blocksize", defines=["H_BLOCKSIZE"],
       replace=["oggpack_read", "oggpack_readinit", "ov_ilog"],
       unwindset=["mk_vi.0:65", "mk_vi.1:65"], reach=2, timeout=900, assumed=SYN_ASSUMED,
       note="packet block size: one of the two block sizes or a documented error; mode index in bounds for every bit pattern"),
]
