from tools.driver import Unit
UNITS = [
  Unit("vf_seek_lap", ["C19", "C03", "C12"], "lib/vorbisfile.c", enforce="_ov_64_seek_lap", replace=["_ov_initset", "_ov_initprime", "_ov_getlap", "_ov_splice"],
       harness="h_vf_seek_lap.c", entry="h_vf_seek_lap", unwindset=["_ov_64_seek_lap.0:3", "h_vf_seek_lap.0:3"], reach=4, kind="B", timeout=600,
       bound="<= 2 links, 1..2 channels per link (the row-allocation loop is unwound); every short block size 64..8192 per link, half-rate flag, link reached by the seek, every return code of the seek / priming symbolic",
       assumed=["_ov_initset, _ov_initprime, _ov_getlap, _ov_splice by contract (ghost-recording; _ov_splice's own contract: units vf_splice_*); vorbis_info_blocksize, vorbis_window, vorbis_synthesis_lapout, vorbis_synthesis_halfrate_p as body-ful stubs keyed by the link the handle is on (lapout exposes one row per channel of the CURRENT link, unit blk_lapout); the plain seek passed in is a stub that may move to any link and return any code",
                "ov_info / ov_halfrate_p are the real code (their own units)", "alloca requests checked against the stack budget"],
       note="lapped seek (raw / pcm / page variants share this body): refused before anything happens on an unopened handle; lap data of the OLD link is collected before the seek; fails wherever the plain seek (or the priming) fails, with its code and without splicing; on success exactly one splice, told the old link's channel count / lap size / window and the NEW link's (re-read after the seek, which may have changed link), over the buffer the decoder exposed - so the splice never reads more row pointers than the new link has"),
]
UNITS += [
  Unit("vf_getlap", ["C03", "C19"], "lib/vorbisfile.c", enforce="_ov_getlap", replace=["_fetch_and_process_packet"], loops="vf_getlap.loops",
       harness="h_vf_getlap.c", entry="h_vf_getlap", reach=2, kind="B", timeout=600,
       bound="<= 2 channels (rows are harness-built); lap size 0..4096 (every half short block), sample counts offered by the decoder, number of packets fetched symbolic; all four loops closed by loop contracts",
       assumed=["pcmout / read / lapout as body-ful stubs after their proved contracts (units blk_pcmout, blk_read, blk_lapout); ASSUMED about lapout: it returns 0 only while the decoder holds no position, impossible once pcmout has delivered samples in this call",
                "memcpy / memset modelled as range checks + arbitrary destination", "_fetch_and_process_packet by contract (any code <= 1; assumed callee); termination of the collecting loop depends on the data source (not claimed)"],
       note="lap buffer fill: each copy (pending PCM, later packets, the decoder's overlap half) is clipped to what is still missing, so no store goes past lapsize floats of any channel row; the zero fill (nothing ever decoded) covers exactly the rows; never consumes more from the decoder than it offered; lap data is collected without spanning links"),
]
