from tools.driver import Unit
UNITS = [
  Unit("enc_template", ["C15"], "lib/vorbisenc.c", enforce="get_setup_template", harness="h_enc_template.c", entry="h_enc_template",
       unwindset=["get_setup_template.0:19", "get_setup_template.1:14"], reach=4, timeout=1500, shards=8, objbits=13,
       assumed=["the real static template tables of vorbisenc.c / modes/*.h are the data (17 templates, <= 12 mappings each): loops fully unwound with unwinding assertions"],
       note="template look-up for all (channels, rate, request incl. NaN/inf/negative, quality-or-bitrate): no template, or a base setting whose integer part is and is+1 index inside every per-quality table"),
]
