from tools.driver import Unit
UNITS = [
  Unit("enc_template", ["C15"], "lib/vorbisenc.c", enforce="get_setup_template", harness="h_enc_template.c", entry="h_enc_template",
       unwindset=["get_setup_template.0:14", "get_setup_template.1:19"], reach=4, timeout=1800, shards=8, objbits=13, tier="thorough",
       assumed=["the real static template tables of vorbisenc.c / modes/*.h are the data (17 templates, <= 12 mappings each): loops fully unwound with unwinding assertions"],
       note="template look-up for all (channels, rate, request incl. NaN/inf/negative, quality-or-bitrate): no template, or a base setting whose integer part is and is+1 index inside every per-quality table"),
]
UNITS += [
  Unit("enc_ctl", ["C15", "C14"], "lib/vorbisenc.c", enforce="vorbis_encode_ctl", rec=True, harness="h_enc_ctl.c", entry="h_enc_ctl",
       replace=["get_setup_template", "vorbis_encode_setup_setting"], reach=5, timeout=900, objbits=12,
       assumed=["API precondition: arg is a valid object for the requests that dereference it without a NULL test (deprecated RATEMANAGE_GET, LOWPASS_*, IBLOCK_*, COUPLING_*); vi->codec_setup valid (an initialised vorbis_info)",
                "vorbis_encode_setup_setting by contract (its precondition - base setting inside the template's tables - is an obligation at the call site)"],
       note="control interface: documented return codes for every request number; SET after set_in_stone refused with nothing changed; unknown request OV_EIMPL; RATEMANAGE2_SET lets through exactly min<=avg<=max, damping>0, reservoir>=0, 0<=bias<=1 and stores them; refused requests change no rate setting; LOWPASS/IBLOCK clamps; GET changes nothing; COUPLING_SET hands setup_setting a base setting inside the template's tables"),
]
UNITS += [
  Unit("enc_ctl_null", ["C15"], "lib/vorbisenc.c", enforce=None, harness="h_enc_ctl.c", entry="h_enc_ctl_null", defines=["H_NULL"], unwind=2,
       note="vorbis_encode_ctl(NULL, any request, any arg) == OV_EINVAL (loop-free harness over symbolic arguments)"),
]
