from tools.driver import Unit
PAGE = []
UNITS = []
_DRAFT = '''  Unit("vf_pcm_seek_pos", ["C08", "C07", "C20", "C03"], "lib/vorbisfile.c", enforce="ov_pcm_seek", harness="h_vf_pcm_seek.c", entry="h_vf_pcm_seek", loops="vf_seek4.loops", defines=["VF_MAXLINKS=4", "VERIF_TOTAL_GHOST", "VERIF_ASSUME_POS_NOWRAP", "VERIF_GNP_NO_OG"],
       replace=PAGE + ["vorbis_packet_blocksize", "ogg_stream_packetpeek", "ogg_stream_reset_serialno", "vorbis_info_blocksize",
                       "vorbis_synthesis_trackonly", "vorbis_synthesis_blockin", "vorbis_synthesis_pcmout", "vorbis_synthesis_read",
                       "vorbis_synthesis_halfrate_p", "_decode_clear", "_make_decode_ready", "_fetch_and_process_packet",
                       "ov_pcm_seek_page", "ov_pcm_total"],
       reach=2, no_overflow=True, timeout=900,
       assumed=["machine arithmetic treated as mathematical for the position counter: -1 <= pcm_offset < 2^62 assumed at entry of the sample-discard loop (no 64-bit wrap-around)", "termination of the packet-skipping loop depends on the data source (not claimed); termination of the sample-discard loop IS an obligation (decreases clause)"],
              note="(links <= 4) position monitor: after every skipped packet that carries a granule position, the position equals that granule position minus the link's initial offset (not below 0) plus the lengths of all preceding links; sample-accurate seek: error propagation, table indices in bounds, the discard loop terminates and ends at or past the rounded target"),
'''
