from tools.driver import Unit
UNITS = []
UNITS += [
  Unit("cb_make_words", ["C13", "C02", "C01"], "lib/sharedbook.c", enforce="_make_words", harness="h_make_words.c", entry="h_make_words", kind="B",
       unwind=34, leak=True, reach=2, timeout=900,
       bound="<= 3 code lengths, each <= 3 (the 33-slot marker loops are fully unwound)",
       note="Huffman codeword assignment: the single-entry book and an exactly full tree are accepted, over- and under-populated trees are rejected, and a rejected list is released (leak check)"),
]
