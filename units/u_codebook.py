from tools.driver import Unit
OGGR = ["oggpack_read", "oggpack_bytes"]
UNITS = [
  Unit("codebook_unpack", ["C02", "C01", "C13"], "lib/codebook.c", extra_src=["lib/sharedbook.c"], enforce="vorbis_staticbook_unpack",
       replace=OGGR + ["ov_ilog", "_book_maptype1_quantvals"],
       loops="codebook_unpack.loops", reach=4, leak=True, timeout=1200, shards=16, tier="thorough", flags=["--sat-solver","cadical"], solver=None,
       note="static codebook unpack: field ranges, entries*dim < 2^24, lengthlist/quantlist sized and in range, no leak on reject"),
]
