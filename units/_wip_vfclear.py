from tools.driver import Unit
UNITS = []
UNITS += [
  Unit("vf_ov_clear", ["C13", "C03", "C12"], "lib/vorbisfile.c", enforce="ov_clear", loops="_wip_vf_clear.loops", harness="h_vf_ov_clear.c", entry="h_vf_ov_clear",
       replace=["vorbis_block_clear", "vorbis_dsp_clear", "ogg_stream_clear", "ogg_sync_clear", "vorbis_info_clear", "vorbis_comment_clear", "verif_close_cb"],
       leak=True, reach=0, timeout=600,
       assumed=["<= 4 links in the table (the link loop itself is closed by a loop contract)", "sub-object clear functions (block, dsp state, ogg stream/sync, info, comments) by contract: each assigns only its own object"],
       note="ov_clear on a handle in any life-cycle state: every table released exactly once (leak and double-free checks), every link's info and comments cleared exactly once, the close callback run exactly once iff a data source and a callback exist, the handle zeroed afterwards (so a second ov_clear is a no-op)"),
]
