from tools.driver import Unit
UNITS = [
  Unit("vf_get_data", ["C12", "C03"], "lib/vorbisfile.c", enforce="_get_data", harness="h_vf_page.c", entry="h_vf_get_data", defines=["H_GETDATA"], reach=3,
       assumed=["read callback as a body-ful stub: returns any count <= what was asked, 0 with or without errno; ogg_sync_buffer exposes >= READSIZE writable bytes (libogg, assumed)"],
       note="one chunk read: no callback => -1 and no data source => 0 without touching anything; otherwise exactly one read of READSIZE bytes into the framer's buffer; exactly the bytes that arrived are committed; 0 bytes is end of data unless errno says failure (-1)"),
  Unit("vf_get_next_page", ["C03", "C12", "C09"], "lib/vorbisfile.c", enforce="_get_next_page", replace=["_get_data"], loops="vf_page.loops",
       harness="h_vf_page.c", entry="h_vf_get_next_page", reach=6, no_overflow=False,
       assumed=["ogg_sync_pageseek (libogg, assumed, body-ful stub): page length <= 65307, or a negative skip count, or 0; it never consumes more bytes than the data source holds, and the data source is shorter than 2^61 bytes (no 64-bit wrap-around of the file position)",
                "termination of the search depends on the data source ending (not claimed)"],
       note="forward page search: returns a page offset or OV_FALSE / OV_EOF / OV_EREAD; the recorded position only moves forward and ends right behind the page found; a bounded search accepts only a page that starts inside the window; boundary 0 never asks the data source; EOF / read failure only after the data source was asked"),
]
