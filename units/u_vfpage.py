from tools.driver import Unit
UNITS = [
  Unit("vf_get_data", ["C12", "C03"], "lib/vorbisfile.c", enforce="_get_data", harness="h_vf_page.c", entry="h_vf_get_data", defines=["H_GETDATA"], reach=3,
       assumed=["read callback as a body-ful stub: returns any count <= what was asked, 0 with or without errno; ogg_sync_buffer exposes >= READSIZE writable bytes (libogg, assumed)"],
       note="one chunk read: no callback => -1 and no data source => 0 without touching anything; otherwise exactly one read of READSIZE bytes into the framer's buffer; exactly the bytes that arrived are committed; 0 bytes is end of data unless errno says failure (-1)"),
  Unit("vf_get_next_page", ["C03", "C12", "C09"], "lib/vorbisfile.c", enforce="_get_next_page", replace=["_get_data"], loops="vf_page.loops",
       harness="h_vf_page.c", entry="h_vf_get_next_page", reach=6, no_overflow=False,
       assumed=["ogg_sync_pageseek (libogg, assumed, body-ful stub): page length <= 65307, or a negative skip count, or 0; it never consumes more bytes than the data source holds, and the data source is shorter than 2^61 bytes (no 64-bit wrap-around of the file position)",
                "termination of the search depends on the data source ending (not claimed)"],
       note="forward page search: returns a page offset or OV_FALSE / OV_EOF / OV_EREAD; the recorded position only moves forward and ends right behind the page found; a bounded search accepts only a page that starts inside the window; boundary 0 never asks the data source; EOF / read failure only after the data source was asked"),
  Unit("vf_get_prev_page", ["C03", "C12", "C08"], "lib/vorbisfile.c", enforce="_get_prev_page", replace=["_get_next_page", "_seek_helper", "verif_seek_cb", "ogg_sync_reset"], loops="vf_prev.loops",
       harness="h_vf_page.c", entry="h_vf_get_prev_page", defines=["H_PREV", "VERIF_PREV"], reach=4,
       assumed=["_get_next_page and _seek_helper by their contracts (proved in units vf_get_next_page, vf_seek_helper)", "stream positions below 2^61"],
       note="backward page search: returns the offset of a page that starts before `begin`, or OV_EREAD / OV_EFAULT / OV_EBADLINK; TERMINATES whatever the callbacks do (decreases clause on the chunk-back loop: a search from offset 0 that finds nothing gives up; the forward scan inside a chunk advances or stops) - a genuine hang was found and fixed"),
  Unit("vf_get_prev_page_serial", ["C03", "C12", "C09"], "lib/vorbisfile.c", enforce="_get_prev_page_serial", replace=["_get_next_page", "_seek_helper", "verif_seek_cb", "ogg_sync_reset", "ogg_page_serialno", "ogg_page_granulepos", "_lookup_serialno"], loops="vf_prev.loops",
       harness="h_vf_page.c", entry="h_vf_get_prev_page_serial", defines=["H_PREVS", "VERIF_PREV"], reach=3,
       assumed=["_get_next_page and _seek_helper by their contracts (proved in units vf_get_next_page, vf_seek_helper); _lookup_serialno by contract (0/1)", "stream positions below 2^61"],
       note="backward page search preferring a serial number (used to find the end of each link at open): same return contract and TERMINATION for every callback behaviour - the give-up test after a fruitless search from offset 0 is an obligation (it tested the wrong variable: genuine hang at open, found and fixed)"),
]
