from tools.driver import Unit
VF_CALLEES = ["vorbis_synthesis_read", "vorbis_synthesis_halfrate_p", "_fetch_and_process_packet"]
CASES = {0: "word<=0 refused", 1: "8 bit signed and unsigned", 2: "16 bit little-endian signed",
         3: "16 bit little-endian unsigned", 4: "16 bit big-endian (signed and unsigned)"}
UNITS = [
  Unit("vf_read_filter_c%d" % c, ["C17", "C07", "C20", "C03"], "lib/vorbisfile.c", enforce="ov_read_filter", replace=VF_CALLEES,
       harness="h_vf_read_filter.c", entry="h_vf_read_filter", defines=["VERIF_CASE=%d" % c],
       kind="B", nochecks=True, flags=["--bounds-check", "--pointer-check", "--div-by-zero-check", "--signed-overflow-check"], shards=(8 if c >= 2 else 1), unwind_cut=(["ov_read_filter.0:2"] if c else ["ov_read_filter.%d:1" % k for k in range(11)]), unwind=(4 if c else None), reach=(4 if c else 1), timeout=900,
       bound="<= 2 channels, <= 2 frames handed out per packet, <= 1 packet fetch per call; word in {<=0,1,2}; every float value, length, flags symbolic",
       assumed=["vorbis_synthesis_pcmout stub body (contracts/vf_read.spec.h): hands out 0..2 frames in 2 rows of arbitrary floats",
                "__builtin_ia32_cvtsd2si (vorbis_ftoi on x86-64) modelled per Intel SDM: round-to-nearest-even, 0x80000000 on NaN/overflow",
                "little-endian host (host_is_big_endian()==0 as on the sandbox)",
                "case split over (word, sgned, bigendianp): units c0..c4 partition word<=2; word>2 is outside the documented API"],
       note="integer PCM packing, case %s: parameter errors, frame count, position advance, untouched bytes, value of every output byte (ghost channel/frame)" % CASES[c])
  for c in CASES
]
UNITS += [
  Unit("vf_read_float", ["C07", "C20", "C03", "C12"], "lib/vorbisfile.c", enforce="ov_read_float", harness="h_vf_readfloat.c", entry="h_vf_readfloat", kind="B", unwind_cut=["ov_read_float.0:3"],
       bound="<= 2 packet fetches per call (the fetch loop is cut after 2 iterations: 6.11 rejects a loop contract here - a body-local is assigned and the stub allocates inside the loop)",
       replace=["vorbis_synthesis_read", "vorbis_synthesis_halfrate_p", "_fetch_and_process_packet"], reach=3, no_overflow=True, timeout=600,
       assumed=["length >= 1 (a non-positive length is API misuse: it would 'consume' a non-positive count)", "decoder interface (pcmout stub, read, halfrate_p) and _fetch_and_process_packet by assumed contracts; termination of the fetch loop depends on the data source"],
       note="float read: returns min(pending, length) samples of the row table the decoder handed out, consumes exactly that many, advances the position by exactly that many <<hs after any number of packet fetches, reports the current link; otherwise consumes nothing and returns 0 (end of data) or the fetch error"),
]
