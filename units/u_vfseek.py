from tools.driver import Unit
PAGE = ["_get_next_page", "ogg_page_bos", "ogg_page_serialno", "ogg_page_granulepos", "ogg_stream_pagein", "ogg_stream_packetout"]
UNITS = [
  Unit("vf_initial_pcmoffset", ["C04", "C09", "C03"], "lib/vorbisfile.c", enforce="_initial_pcmoffset", loops="vf_seek.loops",
       replace=PAGE + ["vorbis_packet_blocksize"], reach=2, no_overflow=True,
       assumed=["termination of the page loop depends on the data source (not claimed)", "granule positions are arbitrary 64-bit values: wrap-around of granulepos-accumulated not checked"],
       note="initial PCM offset of a link is never negative"),
  Unit("vf_pcm_seek", ["C08", "C07", "C20", "C03"], "lib/vorbisfile.c", enforce="ov_pcm_seek", loops="vf_seek.loops", defines=["VERIF_TOTAL_GHOST", "VERIF_ASSUME_POS_NOWRAP", "VERIF_GNP_NO_OG"],
       replace=PAGE + ["vorbis_packet_blocksize", "ogg_stream_packetpeek", "ogg_stream_reset_serialno", "vorbis_info_blocksize",
                       "vorbis_synthesis_trackonly", "vorbis_synthesis_blockin", "vorbis_synthesis_pcmout", "vorbis_synthesis_read",
                       "vorbis_synthesis_halfrate_p", "_decode_clear", "_make_decode_ready", "_fetch_and_process_packet",
                       "ov_pcm_seek_page", "ov_pcm_total"],
       reach=2, no_overflow=True, timeout=900,
       assumed=["machine arithmetic treated as mathematical for the position counter: -1 <= pcm_offset < 2^62 assumed at entry of the sample-discard loop (no 64-bit wrap-around)", "termination of the packet-skipping loop depends on the data source (not claimed); termination of the sample-discard loop IS an obligation (decreases clause)"],
              note="sample-accurate seek: error propagation, table indices in bounds, the discard loop terminates and ends at or past the rounded target"),
]
