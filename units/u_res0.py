from tools.driver import Unit
UNITS = [
  Unit("res0_unpack", ["C02", "C01", "C13"], "lib/res0.c", enforce="res0_unpack", replace=["oggpack_read", "icount"], loops="res0.loops",
       harness="h_res0_unpack.c", entry="h_res0_unpack", unwindset=["h_res0_unpack.0:7", "h_res0_unpack.1:7"], reach=3, leak=True, timeout=900, shards=8,
       assumed=["<= 6 codebooks in the harness-built setup (the range checks against the book count are exercised for every count 1..6); every field value symbolic"],
       note="residue setup: field ranges, classification book exists with dimensions and partvals <= its entries, cascade words <= 255, every stage-book slot names an existing book and transmitted non-zero slots a value book with dim >= 1; nothing leaked on reject"),
]
