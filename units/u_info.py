from tools.driver import Unit
UNITS = [
  Unit("info_unpack_info", ["C02","C01","C13"], "lib/info.c", enforce="_vorbis_unpack_info",
       replace=["oggpack_read","vorbis_info_clear"], reach=4, leak=True,
       note="ID header: ranges, power-of-two block sizes, clear on reject, 177-bit layout"),
]
UNITS += [
  Unit("info_toupper", ["C16"], "lib/info.c", enforce="_v_toupper", reach=2,
       note="ASCII-only case folding for all 2^32 int arguments"),
  Unit("info_tagcompare", ["C16"], "lib/info.c", enforce="tagcompare", replace=["_v_toupper"], loops="info_tagcompare.loops", reach=2,
       note="tagcompare(n arbitrary): any folded difference gives non-zero (ghost index)"),
  Unit("info_tagcompare_conv", ["C16"], "lib/info.c", enforce="tagcompare", replace=["_v_toupper"], harness="h_info_tagcompare.c",
       entry="h_info_tagcompare", defines=["VERIF_TAGCMP_BOUNDED"], unwind=6, kind="B", reach=2,
       bound="converse direction (all equal => 0) expanded for n <= 4",
       note="tagcompare converse"),
  Unit("info_query", ["C16", "C13"], "lib/info.c", enforce=None, kind="B", unwind=6, leak=True, reach=2, timeout=900, tier="thorough",
       bound="<= 3 comments of <= 4 characters, tag <= 2 characters; all byte values symbolic",
       note="query / query_count against an independent specification; fulltag freed; comment_clear releases everything, idempotent"),
]
UNITS += [
  Unit("info_headerin", ["C02", "C01"], "lib/info.c", enforce="vorbis_synthesis_headerin", harness="h_headerin.c", entry="h_headerin",
       replace=["oggpack_read", "oggpack_readinit", "_vorbis_unpack_info", "_vorbis_unpack_comment", "_vorbis_unpack_books"],
       unwindset=["_v_readstring.0:8", "memcmp.0:8"], reach=5, timeout=600,
       assumed=["the three unpackers by contract; what each needs from the dispatcher (fresh info / no previous comments / a setup structure without books) is an obligation at the call site"],
       note="header dispatcher for packets in ANY order and with any flags: at most one unpacker runs; ID header only on a b_o_s packet into a fresh info, comments only after it and once, setup only after both, with a setup structure present and empty; every other packet is refused with a documented code and touches nothing"),
]
