from tools.driver import Unit
UNITS = [
  Unit("info_unpack_info", ["C02","C01","C13"], "lib/info.c", enforce="_vorbis_unpack_info",
       replace=["oggpack_read","vorbis_info_clear"], reach=4, leak=True,
       note="ID header: ranges, power-of-two block sizes, clear on reject, 177-bit layout"),
]
