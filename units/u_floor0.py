from tools.driver import Unit
UNITS = [
  Unit("floor0_unpack", ["C02", "C01", "C13"], "lib/floor0.c", enforce="floor0_unpack", replace=["oggpack_read"], loops="floor0.loops",
       harness="h_floor0_unpack.c", entry="h_floor0_unpack", unwindset=["h_floor0_unpack.0:7", "h_floor0_unpack.1:7"], reach=2, leak=True, timeout=600,
       assumed=["<= 6 codebooks in the harness-built setup; every field value symbolic"],
       note="floor 0 setup: order, rate, bark map size >= 1, 1..16 books each an existing value book with dim >= 1, exact bit count, nothing leaked on reject"),
]
