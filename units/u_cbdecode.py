from tools.driver import Unit
UNITS = [
  Unit("cb_decode_entry", ["C02", "C05", "C01"], "lib/codebook.c", enforce="decode_packed_entry_number", loops="codebook_decode.loops",
       harness="h_cb_decode.c", entry="h_cb_decode", unwindset=["decode_packed_entry_number.0:33"], reach=4, timeout=900, objbits=8,
       assumed=["oggpack_look / oggpack_adv as body-ful stubs (look: -1 or any value below 2^bits); the decode book shaped as vorbis_book_init_decode builds it (first-table word valid at the looked-up index, search hints lo < hi)"],
       note="Huffman decode: result is an entry of the book or end-of-packet for every bit pattern and every first-table word; bisection stays inside the code list and terminates; an accepted codeword consumes exactly its length, a rejected one exactly the bits that were looked at - so the shortened look near the end of a packet decides with the width it actually read"),
]
