from tools.driver import Unit
ASSUMED = ["decode_packed_entry_number by its contract (an entry of the book or -1; proved in unit cb_decode_entry)",
           "the book as the decode set-up leaves a value book: dim >= 1, used_entries*dim floats in the value table (harness-built)"]
def vec(name, fn, reach, what, small=None, tier="quick", timeout=900):
    d = ["H_NAME=h_" + name, "H_FN=" + fn] + (["H_SMALL=%d" % small] if small else [])
    return Unit(name, ["C02", "C01", "C11", "C18"], "lib/codebook.c", enforce=fn, replace=["decode_packed_entry_number"], loops="codebook_vec.loops",
       harness="h_cb_vec.c", entry="h_" + name, defines=d, reach=reach, timeout=timeout, tier=tier, assumed=ASSUMED, note=what,
       kind="B" if small else "P", bound=("value table of <= %d floats (used_entries*dim; the one nonlinear obligation entry*dim+j < used_entries*dim scales with it); n up to 2^24, all loops closed by loop contracts" % small) if small else "")
ADD = "vector decode (residue 1): every store lands in the n floats handed in (frame), every load inside the book's value table (entry*dim+j), both loops terminate because a value book has dim >= 1; an empty book decodes nothing; never more codewords than values"
SET = "vector decode (floor 0): as decodev_add; an empty book zero-fills exactly n floats"
UNITS = [
  vec("cb_decodev_add", "vorbis_book_decodev_add", 2, ADD, small=1024),
  vec("cb_decodev_set", "vorbis_book_decodev_set", 3, SET, small=1024),
  vec("cb_decodev_add_full", "vorbis_book_decodev_add", 2, ADD + " (value table up to the format's 2^24 floats: not finished in 15 min on MiniSat; kept for the thorough tier)", tier="thorough", timeout=3600),
]
