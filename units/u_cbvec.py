from tools.driver import Unit
def vec(name, fn, reach, what):
    return Unit(name, ["C02", "C01", "C11", "C18"], "lib/codebook.c", enforce=fn, replace=["decode_packed_entry_number"], loops="codebook_decode.loops",
       harness="h_cb_vec.c", entry="h_" + name, defines=["H_NAME=h_" + name, "H_FN=" + fn], reach=reach, timeout=900,
       assumed=["decode_packed_entry_number by its contract (an entry of the book or -1; proved in unit cb_decode_entry)",
                "the book as the decode set-up leaves a value book: dim >= 1, used_entries*dim <= 2^24 floats in the value table (harness-built)"],
       note=what)
def lem(u):
    u.name += "_lem"; u.entry += "_lem"; u.defines = [d.replace("H_NAME=h_" + u.name[:-4], "H_NAME=h_" + u.name) for d in u.defines] + ["VERIF_MUL_LEMMA"]
    u.assumed.append("arithmetic lemma assumed with the callee contract: 0 <= e < u, d >= 1 ==> e*d + d <= u*d (all below 2^24)")
    return u
def small(u):
    u.name += "_small"; u.entry += "_small"; u.defines = [d.replace("H_NAME=h_" + u.name[:-6], "H_NAME=h_" + u.name) for d in u.defines] + ["H_SMALL=1024"]
    return u
UNITS = [
  small(vec("cb_decodev_add", "vorbis_book_decodev_add", 2, "probe")),
  lem(vec("cb_decodev_add", "vorbis_book_decodev_add", 2, "with the multiplication lemma")),
  vec("cb_decodev_add", "vorbis_book_decodev_add", 2, "vector decode (residue 1): every store lands in the n floats handed in (frame), every load inside the book's value table (entry*dim+j), both loops terminate because a value book has dim >= 1; an empty book decodes nothing; never more codewords than values"),
  vec("cb_decodev_set", "vorbis_book_decodev_set", 3, "vector decode (floor 0): as decodev_add; an empty book zero-fills exactly n floats"),
]
