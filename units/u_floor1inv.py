from tools.driver import Unit
NOTE = ("floor 1 curve synthesis: the curve is rendered into half the CURRENT block (not the floor's own X range), every line has positive length, both ends clamped into the 256-entry dB table, "
        "unused posts skipped, the tail fill starts at the last rendered post and stays inside the vector; an unused floor zero-fills exactly the vector; nothing else is written")
ASSUMED = ["render_line by contract: its PRECONDITIONS (positive length, ends inside the dB table, output vector of half the current block) are proved at the call site; its table index during the walk (Bresenham stays between the end points) is assumed - nonlinear, undecided on every installed solver",
           "look as floor1_look builds it from posts that are pairwise distinct (harness-built over all 65 slots): forward_index a strictly increasing ordering; memo values 16 bit as floor1_inverse1 leaves them (not under contract)"]
def f1(name, posts, tier, timeout):
    return Unit(name, ["C02", "C01", "C11"], "lib/floor1.c", enforce="floor1_inverse2", replace=["render_line"], loops="floor1_inv.loops",
       harness="h_floor1_inverse2.c", entry="h_floor1_inverse2", defines=(["H_MAXPOSTS=%d" % posts] if posts else []),
       unwindset=["h_floor1_inverse2.0:66", "h_floor1_inverse2.1:66", "h_floor1_inverse2.2:66"], reach=4, timeout=timeout, tier=tier,
       kind="B" if posts else "P", bound=("<= %d posts (the function's loops are closed by loop contracts; solving time grows with the number of sorted posts the harness states: 9 s for 8, 63 s for 20, > 15 min for the format's 65); block sizes, multiplier, post positions, decoded values, unused flags symbolic" % posts) if posts else "",
       assumed=ASSUMED, note=NOTE)
UNITS = [f1("floor1_inverse2", 16, "quick", 600), f1("floor1_inverse2_full", 0, "thorough", 3600)]
