from tools.driver import Unit
UNITS = [
  Unit("floor1_inverse2", ["C02", "C01", "C11"], "lib/floor1.c", enforce="floor1_inverse2", replace=["render_line"], loops="floor1_inv.loops",
       harness="h_floor1_inverse2.c", entry="h_floor1_inverse2", unwindset=["h_floor1_inverse2.0:66", "h_floor1_inverse2.1:66", "h_floor1_inverse2.2:66"],
       reach=4, timeout=900,
       assumed=["render_line by contract: its PRECONDITIONS (positive length, ends inside the dB table, output vector of half the current block) are proved at the call site; its table index during the walk (Bresenham stays between the end points) is assumed - nonlinear, undecided on every installed solver",
                "look as floor1_look builds it from posts that are pairwise distinct (harness-built, all 65 slots; posts 2..65 symbolic): forward_index a strictly increasing ordering; memo values 16 bit as floor1_inverse1 leaves them (not under contract)"],
       note="floor 1 curve synthesis: the curve is rendered into half the CURRENT block (not the floor's own X range), every line has positive length, both ends clamped into the 256-entry dB table, unused posts skipped, the tail fill starts at the last rendered post and stays inside the vector; an unused floor zero-fills exactly the vector; nothing else is written"),
]
