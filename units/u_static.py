from tools.driver import Unit
UNITS = [
  Unit("static_scan", ["C18"], "lib/block.c", enforce=None, kind="S", runner="static_scan",
       assumed=["supporting static fact, not a contract proof: symbol table and goto program of all 22 translation units of the three libraries as compiled by goto-cc (x86-64 configuration of os.h; TRAIN_*/DEBUG_MALLOC/ANALYSIS blocks are not compiled, as in the real build)"],
       note="every object with static storage duration is const-qualified, or is never assigned and never address-taken by any function (no shared mutable state between instances)"),
]

# frame conditions counted for C18: the write-set (assigns clause) obligations of these units
FRAME = r"assigns|assignable|write_set|frees"
EXTRA_PROPS = {n: {"C18": FRAME} for n in ["blk_blockin", "blk_restart", "blk_read", "blk_pcmout", "syn_synthesis", "syn_trackonly", "syn_blocksize", "map0_unpack", "info_unpack_info", "enc_ctl"]}
