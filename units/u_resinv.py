from tools.driver import Unit
WRAP_NOTE = ("residue decode entry (Vorbis I 8.6.2): vectors flagged 'do not decode' are compacted away - the partition decoder is handed exactly the "
             "other vectors, in channel order (ghost channel), and THEIR count (not the bundle size); it is not run at all when none is left; "
             "format %s uses %s")
UNITS = [
  Unit("res_res0_inverse", ["C01", "C02", "C11"], "lib/res0.c", enforce="res0_inverse", replace=["_01inverse"], loops="res0_inv.loops",
       harness="h_res_wrap.c", entry="h_res_res0_inverse", defines=["VERIF_RES_WRAPPERS", "VERIF_RES_MAXCH=16", "H_NAME=h_res_res0_inverse", "H_FN=res0_inverse"],
       unwindset=["build.0:17"], reach=2, timeout=600,
       kind="B", bound="<= 16 vectors per bundle (the harness loop that builds the ghost prefix counts is unwound; the loop of the function itself is closed by a loop contract); flags, vectors and the ghost channel symbolic",
       note=WRAP_NOTE % ("0", "the interleaving decoder")),
  Unit("res_res1_inverse", ["C01", "C02", "C11"], "lib/res0.c", enforce="res1_inverse", replace=["_01inverse"], loops="res0_inv.loops",
       harness="h_res_wrap.c", entry="h_res_res1_inverse", defines=["VERIF_RES_WRAPPERS", "VERIF_RES_MAXCH=16", "H_NAME=h_res_res1_inverse", "H_FN=res1_inverse"],
       unwindset=["build.0:17"], reach=2, timeout=600,
       kind="B", bound="<= 16 vectors per bundle (the harness loop that builds the ghost prefix counts is unwound; the loop of the function itself is closed by a loop contract); flags, vectors and the ghost channel symbolic",
       note=WRAP_NOTE % ("1", "the concatenating decoder")),
]
