from tools.driver import Unit
WRAP_NOTE = ("residue decode entry (Vorbis I 8.6.2): vectors flagged 'do not decode' are compacted away - the partition decoder is handed exactly the "
             "other vectors, in channel order (ghost channel), and THEIR count (not the bundle size); it is not run at all when none is left; "
             "format %s uses %s")
UNITS = [
  Unit("res_res0_inverse", ["C01", "C02", "C11"], "lib/res0.c", enforce="res0_inverse", replace=["_01inverse"], loops="res0_inv.loops",
       harness="h_res_wrap.c", entry="h_res_res0_inverse", defines=["VERIF_RES_WRAPPERS", "VERIF_RES_MAXCH=16", "H_NAME=h_res_res0_inverse", "H_FN=res0_inverse"],
       unwindset=["build.0:17"], reach=2, timeout=600,
       kind="B", bound="<= 16 vectors per bundle (the harness loop that builds the ghost prefix counts is unwound; the loop of the function itself is closed by a loop contract); flags, vectors and the ghost channel symbolic",
       note=WRAP_NOTE % ("0", "the interleaving decoder")),
  Unit("res_res1_inverse", ["C01", "C02", "C11"], "lib/res0.c", enforce="res1_inverse", replace=["_01inverse"], loops="res0_inv.loops",
       harness="h_res_wrap.c", entry="h_res_res1_inverse", defines=["VERIF_RES_WRAPPERS", "VERIF_RES_MAXCH=16", "H_NAME=h_res_res1_inverse", "H_FN=res1_inverse"],
       unwindset=["build.0:17"], reach=2, timeout=600,
       kind="B", bound="<= 16 vectors per bundle (the harness loop that builds the ghost prefix counts is unwound; the loop of the function itself is closed by a loop contract); flags, vectors and the ghost channel symbolic",
       note=WRAP_NOTE % ("1", "the concatenating decoder")),
]
def core_bound(parts, pv, n, stages, maxch=2):
    return ("<= %d vector(s), <= %d partition classes, <= %d classification values, classification book of <= 2 dimensions, <= %d partitions inside the decoded range, <= %d cascade stages; "
            "all loops unwound completely under these bounds; begin/end/grouping (24-bit), every block size 64..8192, stage masks, which stage books exist, "
            "class words (any entry number up to 2^24, incl. beyond partvals) and end-of-packet at every read symbolic") % (maxch, parts, pv, n, stages)
CORE_ASSUMED = ["callees are body-ful stubs that CHECK their arguments: vorbis_book_decode (any original entry number or -1), the partition decoder (its n floats must lie inside one vector of the bundle), _vorbis_block_alloc (malloc of the requested size, request within the proved precondition of unit blk_alloc)",
                "the look as res0_look builds it from an info satisfying res0_unpack's postcondition (harness-built): decodemap rows of dim class numbers < parts, partbooks[p] of ilog(secondstages[p]) slots",
                "alloca requests checked against the stack budget"]
NOTE01 = "partition decoder of residue formats 0/1 (Vorbis I 8.6.2-8.6.4): the decoded range is clipped to half the block, so every partition handed to the value decoder lies inside its vector; a class word beyond the classification range or a missing class row ends decoding (no table access); class numbers index the stage masks and the book table inside their sizes; class-word table sized for every partition; writes nothing but its own scratch memory"
NOTE2 = "partition decoder of residue format 2: the decoded range is clipped to ch half blocks, every interleaved partition lies inside the bundle; class word range and class-row checks; stage mask / book table indices in range; an all-'do not decode' bundle reads nothing"
def core(name, fn, tier, parts, pv, n, mask, stages, timeout, maxch=2):
    res2 = fn == "res2_inverse"
    d = ["VERIF_RES_CORE", "H_NAME=h_" + name, "MAXPARTS=%d" % parts, "MAXPV=%d" % pv, "MAXN=%d" % n, "MAXMASK=%d" % mask, "VERIF_CORE_MAXCH=%d" % maxch,
         "H_MAX=((vb->pcmend*ch)>>1)" if res2 else "H_MAX=(vb->pcmend>>1)"] + (["H_RES2"] if res2 else [])
    loops = ["%s.%d:9" % (fn, k) for k in range(4 if res2 else 6)]
    return Unit(name, ["C02", "C01", "C11"], "lib/res0.c", enforce=fn, kind="B", bound=core_bound(parts, pv, n, stages, maxch), assumed=CORE_ASSUMED,
                harness="h_res_core.c", entry="h_" + name, defines=d, tier=tier,
                unwindset=loops + ["build_look.0:9", "build_look.1:9", "build_look.2:9", "build_look.3:9", "ilog_.0:9", "h_%s.0:3" % name],
                reach=3, timeout=timeout, note=NOTE2 if res2 else NOTE01)
UNITS += [
  core("res_01inverse_b", "_01inverse", "thorough", 2, 2, 2, 1, 1, 1800, maxch=1),
  core("res_res2_inverse_b", "res2_inverse", "thorough", 2, 2, 2, 1, 1, 1800, maxch=1),
  core("res_01inverse_b8", "_01inverse", "thorough", 3, 4, 4, 255, 8, 3600),
  core("res_res2_inverse_b8", "res2_inverse", "thorough", 3, 4, 4, 255, 8, 3600),
]
