from tools.driver import Unit
WRAP_NOTE = ("residue decode entry (Vorbis I 8.6.2): vectors flagged 'do not decode' are compacted away - the partition decoder is handed exactly the "
             "other vectors, in channel order (ghost channel), and THEIR count (not the bundle size); it is not run at all when none is left; "
             "format %s uses %s")
UNITS = [
  Unit("res_res0_inverse", ["C01", "C02", "C11"], "lib/res0.c", enforce="res0_inverse", replace=["_01inverse"], loops="res0_inv.loops",
       harness="h_res_wrap.c", entry="h_res_res0_inverse", defines=["VERIF_RES_WRAPPERS", "VERIF_RES_MAXCH=16", "H_NAME=h_res_res0_inverse", "H_FN=res0_inverse"],
       unwindset=["build.0:17"], reach=2, timeout=600,
       kind="B", bound="<= 16 vectors per bundle (the harness loop that builds the ghost prefix counts is unwound; the loop of the function itself is closed by a loop contract); flags, vectors and the ghost channel symbolic",
       note=WRAP_NOTE % ("0", "the interleaving decoder")),
  Unit("res_res1_inverse", ["C01", "C02", "C11"], "lib/res0.c", enforce="res1_inverse", replace=["_01inverse"], loops="res0_inv.loops",
       harness="h_res_wrap.c", entry="h_res_res1_inverse", defines=["VERIF_RES_WRAPPERS", "VERIF_RES_MAXCH=16", "H_NAME=h_res_res1_inverse", "H_FN=res1_inverse"],
       unwindset=["build.0:17"], reach=2, timeout=600,
       kind="B", bound="<= 16 vectors per bundle (the harness loop that builds the ghost prefix counts is unwound; the loop of the function itself is closed by a loop contract); flags, vectors and the ghost channel symbolic",
       note=WRAP_NOTE % ("1", "the concatenating decoder")),
]
CORE_BOUND = ("<= 2 vectors, <= 3 partition classes, <= 4 classification values, classification book of <= 2 dimensions, <= 4 partitions inside the decoded range; "
              "all loops unwound completely under these bounds; begin/end/grouping (24-bit), every block size 64..8192, stage masks (all 8 cascade stages), which stage books exist, "
              "class words (any entry number up to 2^24, incl. beyond partvals) and end-of-packet at every read symbolic")
CORE_ASSUMED = ["callees are body-ful stubs that CHECK their arguments: vorbis_book_decode (any original entry number or -1), the partition decoder (its n floats must lie inside one vector of the bundle), _vorbis_block_alloc (malloc of the requested size, request within the proved precondition of unit blk_alloc)",
                "the look as res0_look builds it from an info satisfying res0_unpack's postcondition (harness-built): decodemap rows of dim class numbers < parts, partbooks[p] of ilog(secondstages[p]) slots",
                "alloca requests checked against the stack budget"]
UNITS += [
  Unit("res_01inverse_b", ["C02", "C01", "C11"], "lib/res0.c", enforce="_01inverse", kind="B", bound=CORE_BOUND, assumed=CORE_ASSUMED,
       harness="h_res_core.c", entry="h_res_01inverse_b", defines=["VERIF_RES_CORE", "H_NAME=h_res_01inverse_b", "H_MAX=(vb->pcmend>>1)"],
       unwindset=["_01inverse.0:3", "_01inverse.1:9", "_01inverse.2:5", "_01inverse.3:3", "_01inverse.4:3", "_01inverse.5:3",
                  "build_look.0:9", "build_look.1:9", "build_look.2:9", "build_look.3:9", "ilog_.0:9", "h_res_01inverse_b.0:3"],
       reach=3, timeout=900,
       note="partition decoder of residue formats 0/1 (Vorbis I 8.6.2-8.6.4): the decoded range is clipped to half the block, so every partition handed to the value decoder lies inside its vector; a class word beyond the classification range or a missing class row ends decoding (no table access); class numbers index the stage masks and the book table inside their sizes for all 8 cascade stages; class-word table sized for every partition; writes nothing but its own scratch memory"),
  Unit("res_res2_inverse_b", ["C02", "C01", "C11"], "lib/res0.c", enforce="res2_inverse", kind="B", bound=CORE_BOUND, assumed=CORE_ASSUMED,
       harness="h_res_core.c", entry="h_res_res2_inverse_b", defines=["VERIF_RES_CORE", "H_RES2", "H_NAME=h_res_res2_inverse_b", "H_MAX=((vb->pcmend*ch)>>1)"],
       unwindset=["res2_inverse.0:3", "res2_inverse.1:9", "res2_inverse.2:5", "res2_inverse.3:3",
                  "build_look.0:9", "build_look.1:9", "build_look.2:9", "build_look.3:9", "ilog_.0:9", "h_res_res2_inverse_b.0:3"],
       reach=3, timeout=900,
       note="partition decoder of residue format 2: the decoded range is clipped to ch half blocks, every interleaved partition lies inside the bundle; class word range and class-row checks; stage mask / book table indices in range; an all-'do not decode' bundle reads nothing"),
]
