#include "vf_open.spec.h"
#include VERIF_SRC
void h_vf_ov_clear(void) { OggVorbis_File *vf; ov_clear(vf); }
