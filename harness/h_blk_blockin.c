#include "block_synth.spec.h"
#include VERIF_SRC
#include "h_blk_common.inc"
void h_blk_blockin(void) {
  vorbis_dsp_state *v = mk_vd();
  vorbis_block *vb = mk_vb(v);
  snap(v);
  vorbis_synthesis_blockin(v, vb);
}
