#include "vf_lap.spec.h"
#include VERIF_SRC
#include "vf_lap_post.spec.h"
/* seekable handle with <= 2 links that may differ in channel count (1..2),
   short block size and window */
void h_vf_seek_lap(void) {
  OggVorbis_File *vf = malloc(sizeof *vf); g_vf = vf;
  __CPROVER_assume(vf->seekable == 1 && vf->links >= 1 && vf->links <= LAP_LINKS && vf->current_link >= 0 && vf->current_link < vf->links && vf->ready_state >= 0 && vf->ready_state <= INITSET);
  vf->vi = malloc(sizeof(vorbis_info) * LAP_LINKS);
  for (int l = 0; l < LAP_LINKS; l++) {
    __CPROVER_assume(vf->vi[l].channels >= 1 && vf->vi[l].channels <= 2);
    int s; __CPROVER_assume(s >= 6 && s <= 13); g_bs0[l] = 1L << s;
    g_win[l] = malloc(sizeof(float) * (g_bs0[l] / 2));
  }
  __CPROVER_assume(g_hsflag == 0 || g_hsflag == 1);
  ogg_int64_t pos;
  _ov_64_seek_lap(vf, pos, verif_localseek);
}
