#include "floor0.spec.h"
#include VERIF_SRC
void h_floor0_unpack(void) {
  vorbis_info *vi = malloc(sizeof *vi); codec_setup_info *ci = malloc(sizeof *ci); oggpack_buffer *opb;
  vi->codec_setup = ci;
  __CPROVER_assume(ci->books >= 1 && ci->books <= VERIF_MAXBOOKS);
  for (int i = 0; i < VERIF_MAXBOOKS; i++) ci->book_param[i] = (i < ci->books) ? malloc(sizeof(static_codebook)) : NULL;
  vorbis_info_floor *r = floor0_unpack(vi, opb);
  if (r) floor0_free_info(r);
  for (int i = 0; i < VERIF_MAXBOOKS; i++) free(ci->book_param[i]);
  free(ci); free(vi);
}
