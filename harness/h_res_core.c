#include "res0_inv.spec.h"
#include VERIF_SRC
#include "res0_inv_post.spec.h"
#include "res0.spec.h"       /* RES0_HEAD_OK: what res0_unpack establishes (unit res0_unpack) */
/* bounds of this stand-in (kind B) */
#ifndef MAXPARTS
#define MAXPARTS 3      /* partition classes */
#endif
#ifndef MAXPV
#define MAXPV 4         /* classification values (= decodemap rows) */
#endif
#define MAXDIM 2        /* classification book dimensions (partitions per class word) */
#ifndef MAXN
#define MAXN 4          /* partitions in the block */
#endif
#ifndef MAXMASK
#define MAXMASK 255     /* cascade stage mask (8 stages) */
#endif
static int ilog_(unsigned v) { int r = 0; while (v) { r++; v >>= 1; } return r; }
/* the look as res0_look builds it from an info that passed res0_unpack */
static vorbis_look_residue0 *build_look(void) {
  vorbis_look_residue0 *look = malloc(sizeof *look);
  vorbis_info_residue0 *info = malloc(sizeof *info);
  look->info = info;
  __CPROVER_assume(RES0_HEAD_OK(info) && info->partitions <= MAXPARTS && info->partvals >= 1 && info->partvals <= MAXPV);
  look->parts = info->partitions;
  g_phrasebook = malloc(sizeof(codebook)); g_stagebook = malloc(sizeof(codebook));
  look->phrasebook = g_phrasebook;
  __CPROVER_assume(g_phrasebook->dim >= 1 && g_phrasebook->dim <= MAXDIM);
  look->partbooks = malloc(sizeof(*look->partbooks) * MAXPARTS);
  int maxstage = 0;
  for (int p = 0; p < MAXPARTS; p++) {
    look->partbooks[p] = NULL;
    if (p < look->parts) {
      __CPROVER_assume(info->secondstages[p] >= 0 && info->secondstages[p] <= MAXMASK);
      int st = ilog_(info->secondstages[p]);
      if (st) {
        if (st > maxstage) maxstage = st;
        look->partbooks[p] = malloc(sizeof(codebook *) * st);
        for (int k = 0; k < 8; k++) if (k < st) look->partbooks[p][k] = ((info->secondstages[p] & (1 << k)) && nondet_int()) ? g_stagebook : NULL;
      }
    }
  }
  look->stages = maxstage;
  look->partvals = info->partvals;
  look->decodemap = malloc(sizeof(int *) * MAXPV);
  for (int t = 0; t < MAXPV; t++) {
    look->decodemap[t] = NULL;
    if (t < look->partvals) {
      look->decodemap[t] = malloc(sizeof(int) * MAXDIM);
      for (int k = 0; k < MAXDIM; k++) __CPROVER_assume(look->decodemap[t][k] >= 0 && look->decodemap[t][k] < look->parts);
    }
  }
  g_grouping = info->grouping;
  return look;
}
void H_NAME(void) {
  vorbis_look_residue0 *look = build_look();
  vorbis_block *vb = malloc(sizeof *vb);
  int sh; __CPROVER_assume(sh >= 6 && sh <= 13); vb->pcmend = 1 << sh;      /* every block size */
  int ch; __CPROVER_assume(ch >= 1 && ch <= VERIF_CORE_MAXCH);
  g_chs = ch; g_rowlen = vb->pcmend / 2;
  float **in = malloc(sizeof(float *) * VERIF_CORE_MAXCH);
  for (int c = 0; c < VERIF_CORE_MAXCH; c++) { g_rows[c] = malloc(sizeof(float) * g_rowlen); in[c] = g_rows[c]; }
  g_in = in;
  /* bound: at most MAXN partitions fall inside the decoded range */
  { long max = H_MAX; long end = look->info->end < max ? look->info->end : max; long n = end - look->info->begin;
    __CPROVER_assume(n <= 0 || n / look->info->grouping <= MAXN); }
#ifdef H_RES2
  int *nonzero = malloc(sizeof(int) * VERIF_CORE_MAXCH);
  res2_inverse(vb, look, in, nonzero, ch);
#else
  _01inverse(vb, look, in, ch, verif_decodepart);
#endif
}
