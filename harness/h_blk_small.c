#include "block_synth.spec.h"
#include VERIF_SRC
#include "h_blk_common.inc"
#ifdef H_PCMOUT
void h_blk_pcmout(void) { vorbis_dsp_state *v = mk_vd(); snap(v); vorbis_synthesis_pcmout(v, nondet_int() ? &g_out : NULL); }
#endif
#ifdef H_READ
void h_blk_read(void) { vorbis_dsp_state *v = mk_vd(); snap(v); int n; vorbis_synthesis_read(v, n); }
#endif
#ifdef H_LAPOUT
void h_blk_lapout(void) { vorbis_dsp_state *v = mk_vd(); snap(v); vorbis_synthesis_lapout(v, nondet_int() ? &g_out : NULL); }
#endif
#ifdef H_RESTART
void h_blk_restart(void) {
  vorbis_dsp_state *v = mk_vd();
  if (nondet_int()) v->backend_state = NULL;
  if (nondet_int()) v->vi->codec_setup = NULL;
  if (nondet_int()) v->vi = NULL;
  vorbis_synthesis_restart(v);
}
#endif
