#include "common.h"
/* ve_setup_data_template is defined inside vorbisenc.c, so the contract-carrying
   re-declaration of get_setup_template follows the (byte-for-byte) file */
#include VERIF_SRC
#define VERIF_UNIT_TEMPLATE
#include "vorbisenc.spec.h"
void h_enc_template(void) {
  long ch, srate; double req; int q;
  get_setup_template(ch, srate, req, q, &g_base);
}
