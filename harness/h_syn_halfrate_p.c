#include "synthesis.spec.h"
#include VERIF_SRC
void h_syn_halfrate_p(void) { vorbis_info *vi; vorbis_synthesis_halfrate_p(vi); }
