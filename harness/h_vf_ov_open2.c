#include "vf_open.spec.h"
#include VERIF_SRC
void h_vf_ov_open2(void) {
  OggVorbis_File *vf;
  int r = _ov_open2(vf);
  VREACH(r == 0, "opened"); VREACH(r == OV_EINVAL, "einval"); VREACH(r < 0 && r != OV_EINVAL, "seekable open failed");
}
