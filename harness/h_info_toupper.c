#include "comment.spec.h"
#include VERIF_SRC
void h_info_toupper(void) { int c; int r = _v_toupper(c); VREACH(r != c, "folded"); VREACH(r == c, "unchanged"); }
