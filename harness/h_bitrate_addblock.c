#include "bitrate.spec.h"
#include VERIF_SRC
void h_bitrate_addblock(void) {
  vorbis_block *vb;
  vorbis_bitrate_addblock(vb);
}
