#include "bitrate.spec.h"
#include VERIF_SRC
/* VERIF_LIMITS: 1 = hard max only, 2 = hard min only, 3 = both; VERIF_W: block flag */
long nondet_long(void);
void h_bitrate_addblock(void) {
  vorbis_block *vb = malloc(sizeof(*vb));
  vorbis_block_internal *vbi = malloc(sizeof(*vbi));
  vorbis_dsp_state *vd = malloc(sizeof(*vd));
  private_state *b = malloc(sizeof(*b));
  vorbis_info *vi = malloc(sizeof(*vi));
  codec_setup_info *ci = malloc(sizeof(*ci));
  vb->internal = vbi; vb->vd = vd; vd->backend_state = b; vd->vi = vi; vi->codec_setup = ci;
  for (int i = 0; i < PACKETBLOBS; i++) vbi->packetblob[i] = malloc(sizeof(oggpack_buffer));
  vb->W = VERIF_W;
  b->bms.managed = 1;
  b->bms.avg_bitsper = 0;
#if VERIF_LIMITS == 1
  b->bms.min_bitsper = 0;
#elif VERIF_LIMITS == 2
  b->bms.max_bitsper = 0;
#endif
#ifdef VERIF_NARROW
  /* BOUNDED variant: magnitudes narrowed by construction (assigned from short
     nondeterministic values, so the high bits are constants for the solver):
     blob sizes < 2^16 bytes, per-block budgets < 2^20 bits, reservoir < 2^24 bits,
     short_per_long in 1..16 */
  for (int i = 0; i < PACKETBLOBS; i++) { vbi->packetblob[i]->endbyte = (unsigned short)nondet_long(); }
  b->bms.min_bitsper = nondet_long() & 0xfffff;
  b->bms.max_bitsper = nondet_long() & 0xfffff;
  b->bms.short_per_long = 1 + (nondet_long() & 15);
  ci->bi.reservoir_bits = nondet_long() & 0xffffff;
  b->bms.minmax_reservoir = nondet_long() & 0xffffff;
#if VERIF_LIMITS == 1
  b->bms.min_bitsper = 0;
#elif VERIF_LIMITS == 2
  b->bms.max_bitsper = 0;
#endif
#endif
  g_R0 = b->bms.minmax_reservoir;
  vorbis_bitrate_addblock(vb);
}
