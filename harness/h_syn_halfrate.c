#include "synthesis.spec.h"
#include VERIF_SRC
void h_syn_halfrate(void) { vorbis_info *vi; int flag; int r = vorbis_synthesis_halfrate(vi, flag); VREACH(r == 0 && flag, "on"); VREACH(r == -1, "refused"); VREACH(r == 0 && !flag, "off"); }
