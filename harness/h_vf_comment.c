#include "vf_access.spec.h"
#include VERIF_SRC
void h_vf_comment(void) { OggVorbis_File *vf; int i; ov_comment(vf,i); }
