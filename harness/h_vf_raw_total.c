#include "vf_access.spec.h"
#include VERIF_SRC
void h_vf_raw_total(void) { OggVorbis_File *vf; int i; ov_raw_total(vf,i); }
