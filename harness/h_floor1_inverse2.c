#include "floor1_inv.spec.h"
#include VERIF_SRC
#include "floor1_inv_post.spec.h"
/* look as floor1_look builds it from an info that passed floor1_unpack (unit
   floor1_unpack_b: posts pairwise distinct incl. the implicit ones, below the range
   end): forward_index is the permutation that sorts the posts, strictly increasing */
void h_floor1_inverse2(void) {
  vorbis_look_floor1 *look = malloc(sizeof *look);
  vorbis_info_floor1 *info = malloc(sizeof *info);
  look->vi = info;
  __CPROVER_assume(look->posts >= 2 && look->posts <= VIF_POSIT + 2 && info->mult >= 1 && info->mult <= 4);
#ifdef H_MAXPOSTS
  __CPROVER_assume(look->posts <= H_MAXPOSTS);
#endif
  for (int j = 0; j < VIF_POSIT + 2; j++) {
    if (j < look->posts) {
      __CPROVER_assume(look->forward_index[j] >= 0 && look->forward_index[j] < look->posts);
      __CPROVER_assume(info->postlist[j] >= 0 && info->postlist[j] <= 32768);
    }
  }
  for (int j = 0; j + 1 < VIF_POSIT + 2; j++)
    if (j + 1 < look->posts) __CPROVER_assume(info->postlist[look->forward_index[j]] < info->postlist[look->forward_index[j + 1]]);
  /* look->n (the floor's own X range, 1<<rangebits) is NOT tied to the block size: the format allows any */
  vorbis_block *vb = malloc(sizeof *vb); vorbis_dsp_state *vd = malloc(sizeof *vd); vorbis_info *vi = malloc(sizeof *vi);
  codec_setup_info *ci = malloc(sizeof *ci);
  vb->vd = vd; vd->vi = vi; vi->codec_setup = ci;
  int s0, s1; __CPROVER_assume(s0 >= 6 && s0 <= s1 && s1 <= 13);
  ci->blocksizes[0] = 1L << s0; ci->blocksizes[1] = 1L << s1;
  __CPROVER_assume(vb->W == 0 || vb->W == 1);
  g_n = ci->blocksizes[vb->W] / 2;
  float *out = malloc(sizeof(float) * g_n);
  /* the decoded curve as floor1_inverse1 leaves it: one int per post, 15 value bits + the 'unused' flag bit */
  int *memo = nondet_int() ? malloc(sizeof(int) * (VIF_POSIT + 2)) : NULL;
  if (memo) for (int j = 0; j < VIF_POSIT + 2; j++) __CPROVER_assume(memo[j] >= 0 && memo[j] <= 0xffff);
  floor1_inverse2(vb, look, memo, out);
}
