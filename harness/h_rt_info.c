/* lemma harness (C05, C16): the REAL packers of lib/info.c write a header into
   the (assumed, differential-tested) executable bit-packer model and the REAL
   unpackers read it back.  No library logic is copied here. */
#define OGGM_CAP 160
#include "common.h"
#include "assumed/oggpack_model.h"
#include "vorbis/codec.h"
#include "codec_internal.h"
#include VERIF_SRC
int nondet_int(void); long nondet_long(void);
static int preamble_ok(oggpack_buffer *rd, int type) {
  char b[6];
  if (oggpack_read(rd, 8) != type) return 0;
  _v_readstring(rd, b, 6);
  return b[0] == 'v' && b[1] == 'o' && b[2] == 'r' && b[3] == 'b' && b[4] == 'i' && b[5] == 's';
}
#ifdef H_RT_INFO
void h_rt_info(void) {
  vorbis_info vi, vi2; codec_setup_info *ci = calloc(1, sizeof *ci), *ci2 = calloc(1, sizeof *ci2);
  memset(&vi, 0, sizeof vi); memset(&vi2, 0, sizeof vi2);
  vi.codec_setup = ci; vi2.codec_setup = ci2;
  /* any encoder-side info the ID header can represent (Vorbis I 4.2.2) */
  vi.channels = nondet_int(); vi.rate = nondet_long();
  vi.bitrate_upper = nondet_long(); vi.bitrate_nominal = nondet_long(); vi.bitrate_lower = nondet_long();
  int e0 = nondet_int(), e1 = nondet_int();
  __CPROVER_assume(vi.channels >= 1 && vi.channels <= 255 && vi.rate >= 1 && vi.rate <= 0xffffffffL);
  __CPROVER_assume(vi.bitrate_upper >= -(1L << 31) && vi.bitrate_upper < (1L << 31) && vi.bitrate_nominal >= -(1L << 31) &&
                   vi.bitrate_nominal < (1L << 31) && vi.bitrate_lower >= -(1L << 31) && vi.bitrate_lower < (1L << 31));
  __CPROVER_assume(6 <= e0 && e0 <= e1 && e1 <= 13);
  ci->blocksizes[0] = 1L << e0; ci->blocksizes[1] = 1L << e1;
  oggpack_buffer wr, rd;
  oggpack_writeinit(&wr);
  int r = _vorbis_pack_info(&wr, &vi);
  __CPROVER_assert(r == 0, "ID header is produced");
  __CPROVER_assert(oggpack_bytes(&wr) == 30 && oggpack_bits(&wr) == 233, "ID header is exactly 233 bits (30 bytes)");
  oggpack_readinit(&rd, wr.buffer, oggpack_bytes(&wr));
  __CPROVER_assert(preamble_ok(&rd, 1), "packet type 1 and the codec magic");
  int r2 = _vorbis_unpack_info(&vi2, &rd);
  __CPROVER_assert(r2 == 0, "decoder accepts the encoder's ID header");
  __CPROVER_assert(vi2.version == 0 && vi2.channels == vi.channels && vi2.rate == vi.rate, "same channels and rate");
  __CPROVER_assert((int)vi2.bitrate_upper == (int)vi.bitrate_upper && (int)vi2.bitrate_nominal == (int)vi.bitrate_nominal &&
                   (int)vi2.bitrate_lower == (int)vi.bitrate_lower, "same bitrate fields");
  __CPROVER_assert(ci2->blocksizes[0] == ci->blocksizes[0] && ci2->blocksizes[1] == ci->blocksizes[1], "same block sizes");
  __CPROVER_assert(oggpack_bytes(&rd) == 30, "consumed to the last byte");
}
#endif
#ifdef H_RT_COMMENT
#ifndef RT_NC
#define RT_NC 2
#endif
#ifndef RT_LEN
#define RT_LEN 3
#endif
int g_ci, g_cb;   /* ghost comment / byte index */
void h_rt_comment(void) {
  vorbis_comment vc, vc2;
  memset(&vc, 0, sizeof vc); memset(&vc2, 0, sizeof vc2);
  int n = nondet_int();
  __CPROVER_assume(0 <= n && n <= RT_NC);
  vc.comments = n;
  vc.user_comments = calloc(n + 1, sizeof(char *));
  vc.comment_lengths = calloc(n + 1, sizeof(int));
  for (int i = 0; i < n; i++) {
    int len = nondet_int();
    __CPROVER_assume(0 <= len && len <= RT_LEN);
    vc.comment_lengths[i] = len;
    if (nondet_int()) { vc.user_comments[i] = NULL; vc.comment_lengths[i] = len; }   /* NULL entry: written as length 0 */
    else vc.user_comments[i] = malloc(len + 1);                                       /* arbitrary bytes, zero bytes included */
  }
  oggpack_buffer wr, rd;
  oggpack_writeinit(&wr);
  __CPROVER_assert(_vorbis_pack_comment(&wr, &vc) == 0, "comment header is produced");
  oggpack_readinit(&rd, wr.buffer, oggpack_bytes(&wr));
  __CPROVER_assert(preamble_ok(&rd, 3), "packet type 3 and the codec magic");
  int r2 = _vorbis_unpack_comment(&vc2, &rd);
  __CPROVER_assert(r2 == 0, "decoder accepts the encoder's comment header");
  __CPROVER_assert(vc2.comments == n, "same number of comments");
  const char *vend = ENCODE_VENDOR_STRING;
  __CPROVER_assume(0 <= g_cb && g_cb < (int)sizeof(ENCODE_VENDOR_STRING));
  __CPROVER_assert(vc2.vendor[g_cb] == vend[g_cb], "vendor string of the library, zero terminated");
  __CPROVER_assume(0 <= g_ci && g_ci < n);
  int want = vc.user_comments[g_ci] ? vc.comment_lengths[g_ci] : 0;
  __CPROVER_assert(vc2.comment_lengths[g_ci] == want, "same length (0 for a NULL entry)");
  __CPROVER_assert(vc2.user_comments[g_ci] != NULL && vc2.user_comments[g_ci][want] == 0, "zero terminated on read");
  int k = nondet_int();
  __CPROVER_assume(0 <= k && k < want);
  __CPROVER_assert(vc2.user_comments[g_ci][k] == vc.user_comments[g_ci][k], "same bytes in the same order (embedded zero bytes included)");
  __CPROVER_assert(oggpack_bytes(&rd) == oggpack_bytes(&wr), "consumed to the last byte");
}
#endif
