#include "mapping0.spec.h"
#include VERIF_SRC
void h_map0_unpack(void) {
  vorbis_info *vi; oggpack_buffer *opb;
  vorbis_info_mapping *m = mapping0_unpack(vi, opb);
  if (m) mapping0_free_info(m);
}
