#include "vf_tell.spec.h"
#include VERIF_SRC
#ifdef H_RAW
void h_vf_raw_tell(void) { OggVorbis_File *vf; ov_raw_tell(vf); }
#endif
#ifdef H_PCM
void h_vf_pcm_tell(void) { OggVorbis_File *vf; ov_pcm_tell(vf); }
#endif
#ifdef H_STREAMS
void h_vf_streams(void) { OggVorbis_File *vf; ov_streams(vf); }
#endif
#ifdef H_SEEKABLE
void h_vf_seekable(void) { OggVorbis_File *vf; ov_seekable(vf); }
#endif
#ifdef H_HRP
void h_vf_halfrate_p(void) { OggVorbis_File *vf; ov_halfrate_p(vf); }
#endif
