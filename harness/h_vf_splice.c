/* bounded: <= 2 channels each side, n1,n2 <= SPL_MAX samples; all float values symbolic */
#include "vf_splice.spec.h"
#include VERIF_SRC
#ifndef SPL_MAX
#define SPL_MAX 3
#endif
int nondet_int(void);
void h_vf_splice(void) {
  int n1 = nondet_int(), n2 = nondet_int(), ch1 = nondet_int(), ch2 = nondet_int();
  __CPROVER_assume(n1 >= 0 && n1 <= SPL_MAX && n2 >= 0 && n2 <= SPL_MAX && ch1 >= 0 && ch1 <= 2 && ch2 >= 0 && ch2 <= 2);
  float *pcm[2], *lap[2];
  for (int j = 0; j < 2; j++) { pcm[j] = malloc(n2 * sizeof(float)); lap[j] = malloc(n1 * sizeof(float)); }
  float *w1 = malloc(n1 * sizeof(float)), *w2 = malloc(n2 * sizeof(float));
  /* the ghost position is a constant per proof unit (all 2 x SPL_MAX positions are
     run): the specification then shares the multiplier circuits of the code
     instead of asking the solver to prove two float multipliers equivalent */
  g_j = VERIF_GJ; g_i = VERIF_GI;
  __CPROVER_assume(g_j < ch2 && g_i < n2);
  g_old = pcm[g_j][g_i];
  if (g_j < ch1 && g_i < n1) g_lap = lap[g_j][g_i];
  _ov_splice(pcm, lap, n1, n2, ch1, ch2, w1, w2);
}
