#include "vf_seek.spec.h"
#include VERIF_SRC
void h_vf_pcm_seek(void) { OggVorbis_File *vf; ogg_int64_t pos; int r = ov_pcm_seek(vf, pos); VREACH(r == 0, "ok"); VREACH(r < 0, "error"); }
