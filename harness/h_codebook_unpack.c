#include "codebook.spec.h"
#include VERIF_SRC
void h_codebook_unpack(void) {
  oggpack_buffer *opb;
  static_codebook *s = vorbis_staticbook_unpack(opb);
  VREACH(s == NULL, "rejected");
  VREACH(s != NULL && s->maptype == 0, "accepted map0");
  VREACH(s != NULL && s->maptype == 1, "accepted map1");
  VREACH(s != NULL && s->maptype == 2 && s->entries > 1, "accepted map2");
  /* release an accepted book with the real destroy so that --memory-leak-check
     decides the reject paths exactly */
  if (s) vorbis_staticbook_destroy(s);
}
