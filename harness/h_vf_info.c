#include "vf_access.spec.h"
#include VERIF_SRC
void h_vf_info(void) { OggVorbis_File *vf; int i; ov_info(vf,i); }
