#include "common.h"
#include VERIF_SRC
#define VERIF_UNIT_CTL
#include "vorbisenc.spec.h"
void h_enc_ctl(void) {
  vorbis_info *vi = malloc(sizeof *vi); codec_setup_info *ci = malloc(sizeof *ci);
  vi->codec_setup = ci;
  int number; void *arg = malloc(sizeof(struct ovectl_ratemanage_arg));
  int z; if (z) arg = NULL;
  vorbis_encode_ctl(vi, number, arg);
}
#ifdef H_NULL
void h_enc_ctl_null(void) { int number; void *arg; __CPROVER_assert(vorbis_encode_ctl(NULL, number, arg) == OV_EINVAL, "no info structure: OV_EINVAL for every request"); }
#endif
