/* bounded: <= VC_N comments of <= VC_L characters, tag of <= TAG_L characters */
#include "comment.spec.h"
#include VERIF_SRC
#ifndef VC_N
#define VC_N 3
#define VC_L 4
#define TAG_L 2
#endif
char nondet_char(void); int nondet_int(void);
static char *mkstr(int maxlen) {
  int len = nondet_int(); __CPROVER_assume(len >= 0 && len <= maxlen);
  char *s = malloc(len + 1);
  for (int i = 0; i < len; i++) { s[i] = nondet_char(); __CPROVER_assume(s[i] != 0); }
  s[len] = 0; return s;
}
void h_info_query(void) {
  vorbis_comment vc; int i;
  vorbis_comment_init(&vc);
  int n = nondet_int(); __CPROVER_assume(n >= 0 && n <= VC_N);
  vc.comments = n;
  vc.user_comments = malloc((n + 1) * sizeof(char *));
  vc.comment_lengths = malloc((n + 1) * sizeof(int));
  for (i = 0; i < n; i++) { vc.user_comments[i] = mkstr(VC_L); vc.comment_lengths[i] = strlen(vc.user_comments[i]); }
  vc.user_comments[n] = NULL;
  char *tag = mkstr(TAG_L);
  int cnt = vorbis_comment_query_count(&vc, tag);
  __CPROVER_assert(cnt == spec_count(&vc, tag), "query_count equals the number of entries whose tag matches case-insensitively");
  int k = nondet_int(); __CPROVER_assume(k >= -1 && k <= VC_N);
  char *q = vorbis_comment_query(&vc, tag, k);
  __CPROVER_assert(q == spec_query(&vc, tag, k), "query(k) returns the value of the k-th match in insertion order, NULL beyond");
  __CPROVER_assert((q != NULL) == (k >= 0 && k < cnt), "match count equals the number of successful queries");
  VREACH(cnt == 2, "two matches"); VREACH(q != NULL && k == 1, "second match returned");
  /* everything the library allocated must be gone after clear (leak check) */
  free(tag);
  vorbis_comment_clear(&vc);
  __CPROVER_assert(vc.user_comments == NULL && vc.comments == 0 && vc.vendor == NULL, "comment_clear zeroes the struct");
  vorbis_comment_clear(&vc); /* repeating it is harmless */
}
