#include "vf_readfloat.spec.h"
#include VERIF_SRC
void h_vf_readfloat(void) { OggVorbis_File *vf; int length; int *bs; __CPROVER_assume(length >= 1); ov_read_float(vf, nondet_int() ? &g_out : NULL, length, bs); }
