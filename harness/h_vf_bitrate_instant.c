#include "vf_access.spec.h"
#include VERIF_SRC
void h_vf_bitrate_instant(void) { OggVorbis_File *vf;  ov_bitrate_instant(vf); }
