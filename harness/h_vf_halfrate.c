#include "vf_halfrate.spec.h"
#include VERIF_SRC
void h_vf_halfrate(void) { OggVorbis_File *vf; int flag; int r = ov_halfrate(vf, flag); VREACH(r == 0 && flag, "on"); VREACH(r == OV_EINVAL && flag, "refused"); VREACH(r == 0 && !flag, "off"); }
