#define VERIF_UNIT_ARENA
#include "block_synth.spec.h"
#include VERIF_SRC
int nondet_int(void);
void h_blk_alloc(void) {
  vorbis_block *vb = malloc(sizeof *vb);
  if (nondet_int()) { vb->localstore = NULL; vb->localalloc = 0; }
  else { __CPROVER_assume(vb->localalloc >= 0 && vb->localalloc <= (1L << 30)); vb->localstore = malloc(vb->localalloc); }
  vb->reap = nondet_int() ? malloc(sizeof(struct alloc_chain)) : NULL;
  g_top0 = vb->localtop; g_alloc0 = vb->localalloc; g_use0 = vb->totaluse; g_store0 = vb->localstore; g_reap0 = vb->reap;
  long bytes;
  _vorbis_block_alloc(vb, bytes);
}
