#include "block_init.spec.h"
#include VERIF_SRC
#include "registry.c"
/* a vorbis_info in any state the header functions can leave it: no set-up at all,
   set-up without modes (only the ID header seen), or the complete set-up of the
   three headers (counts 1..4 in this harness; all type fields in range, as the
   unpack units prove) with the static books present, or already handed over */
void h_blk_shared_init(void) {
  vorbis_dsp_state *v = malloc(sizeof *v); vorbis_info *vi = malloc(sizeof *vi);
  int encp = nondet_int();
  if (nondet_int()) vi->codec_setup = NULL;
  else {
    codec_setup_info *ci = malloc(sizeof *ci);
    vi->codec_setup = ci;
    __CPROVER_assume(vi->channels >= 1 && vi->channels <= VERIF_MAXCH && vi->rate >= 1);
    int e0 = nondet_int(), e1 = nondet_int();
    __CPROVER_assume(6 <= e0 && e0 <= e1 && e1 <= 13);
    ci->blocksizes[0] = 1L << e0; ci->blocksizes[1] = 1L << e1;
    __CPROVER_assume(ci->halfrate_flag == 0 || (ci->halfrate_flag == 1 && e0 >= 7));
    __CPROVER_assume(ci->modes >= 0 && ci->modes <= 64);
    __CPROVER_assume(ci->books >= 1 && ci->books <= NB && ci->floors >= 1 && ci->floors <= NB && ci->residues >= 1 && ci->residues <= NB && ci->psys >= 0 && ci->psys <= 1);
    for (int i = 0; i < NB; i++) {
      ci->book_param[i] = (i < ci->books && nondet_int()) ? malloc(sizeof(static_codebook)) : NULL;
      __CPROVER_assume(ci->floor_type[i] == 0 || ci->floor_type[i] == 1);
      __CPROVER_assume(ci->residue_type[i] >= 0 && ci->residue_type[i] <= 2);
      ci->floor_param[i] = malloc(1); ci->residue_param[i] = malloc(1);
    }
    for (int i = 0; i < 1; i++) { ci->psy_param[i] = malloc(sizeof(vorbis_info_psy)); __CPROVER_assume(ci->psy_param[i]->blockflag == 0 || ci->psy_param[i]->blockflag == 1); }
    ci->fullbooks = nondet_int() ? malloc(sizeof(codebook) * NB) : NULL;
    g_full0 = ci->fullbooks;
  }
  _vds_shared_init(v, vi, encp);
}
