#include "vf_open.spec.h"
#include VERIF_SRC
void h_vf_seek_helper(void) {
  OggVorbis_File *vf; ogg_int64_t off;
  int r = _seek_helper(vf, off);
  VREACH(r == 0, "ok"); VREACH(r == OV_EREAD, "eread"); VREACH(r == OV_EFAULT, "efault");
}
