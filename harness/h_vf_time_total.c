#include "vf_access.spec.h"
#include VERIF_SRC
void h_vf_time_total(void) { OggVorbis_File *vf; int i; ov_time_total(vf,i); }
