#include "comment.spec.h"
#include VERIF_SRC
void h_info_tagcompare(void) { const char *a, *b; int n; int r = tagcompare(a, b, n); VREACH(r == 0 && n > 2, "equal"); VREACH(r == 1, "differ"); }
