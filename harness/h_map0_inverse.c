#include "mapping0_inv.spec.h"
#include VERIF_SRC
#include "registry.c"
/* decode state as vorbis_synthesis hands it to the mapping: rows of blocksizes[W]
   floats; mapping parameters as mapping0_unpack's postconditions describe them
   (unit map0_unpack); floor/residue tables sized by the counts */
void h_map0_inverse(void) {
  vorbis_block *vb = malloc(sizeof *vb); vorbis_dsp_state *vd = malloc(sizeof *vd); vorbis_info *vi = malloc(sizeof *vi);
  codec_setup_info *ci = malloc(sizeof *ci); private_state *b = malloc(sizeof *b);
  vorbis_info_mapping0 *info = malloc(sizeof *info);
  vb->vd = vd; vd->vi = vi; vd->backend_state = b; vi->codec_setup = ci;
  g_vb = vb; g_info = info;
  __CPROVER_assume(vi->channels >= 1 && vi->channels <= VERIF_MAXCH);
  g_ch = vi->channels;
  int e0 = nondet_int(), e1 = nondet_int();
  __CPROVER_assume(6 <= e0 && e0 <= e1 && e1 <= 13);
  ci->blocksizes[0] = 1L << e0; ci->blocksizes[1] = 1L << e1;
  __CPROVER_assume(vb->W == 0 || vb->W == 1);
  g_n = ci->blocksizes[vb->W];
  vb->pcm = malloc(VERIF_MAXCH * sizeof(float *));
  for (int c = 0; c < VERIF_MAXCH; c++) vb->pcm[c] = malloc(g_n * sizeof(float));
  __CPROVER_assume(ci->floors >= 1 && ci->floors <= 64 && ci->residues >= 1 && ci->residues <= 64);
  for (int f = 0; f < 64; f++) { __CPROVER_assume(ci->floor_type[f] == 0 || ci->floor_type[f] == 1); __CPROVER_assume(ci->residue_type[f] >= 0 && ci->residue_type[f] <= 2); }
  b->flr = malloc(64 * sizeof(vorbis_look_floor *)); b->residue = malloc(64 * sizeof(vorbis_look_residue *));
  b->transform[0] = malloc(sizeof(vorbis_look_transform *)); b->transform[1] = malloc(sizeof(vorbis_look_transform *));
  __CPROVER_assume(info->submaps >= 1 && info->submaps <= 16 && info->coupling_steps >= 0 && info->coupling_steps <= 256);
  for (int c = 0; c < VERIF_MAXCH; c++) __CPROVER_assume(info->chmuxlist[c] >= 0 && info->chmuxlist[c] < info->submaps);
  for (int s = 0; s < 16; s++) __CPROVER_assume(info->floorsubmap[s] >= 0 && info->floorsubmap[s] < ci->floors && info->residuesubmap[s] >= 0 && info->residuesubmap[s] < ci->residues);
  for (int s = 0; s < 256; s++) if (s < info->coupling_steps)
    __CPROVER_assume(info->coupling_mag[s] >= 0 && info->coupling_mag[s] < g_ch && info->coupling_ang[s] >= 0 && info->coupling_ang[s] < g_ch && info->coupling_mag[s] != info->coupling_ang[s]);
  __CPROVER_assume(0 <= g_k && g_k < g_n / 2);
  mapping0_inverse(vb, (vorbis_info_mapping *)info);
}
