#include "analysis.spec.h"
#include VERIF_SRC
#include "registry.c"
int nondet_int(void);
void h_analysis(void) {
  vorbis_block *vb = malloc(sizeof *vb); vorbis_block_internal *vbi = malloc(sizeof *vbi);
  vorbis_dsp_state *vd = malloc(sizeof *vd); private_state *b = malloc(sizeof *b);
  vb->internal = vbi; vb->vd = vd; vd->backend_state = b;
  for (int i = 0; i < PACKETBLOBS; i++) { vbi->packetblob[i] = malloc(sizeof(oggpack_buffer)); vbi->packetblob[i]->buffer = malloc(8); vbi->packetblob[i]->ptr = vbi->packetblob[i]->buffer + 3; }
  __CPROVER_assume(0 <= g_i && g_i < PACKETBLOBS);
  ogg_packet *op = nondet_int() ? malloc(sizeof *op) : NULL;
  vorbis_analysis(vb, op);
}
