#include "vf_page.spec.h"
#include VERIF_SRC
#ifdef H_GETDATA
void h_vf_get_data(void) { OggVorbis_File *vf = malloc(sizeof *vf); __CPROVER_assume(vf->callbacks.read_func == NULL || vf->callbacks.read_func == verif_read_cb); _get_data(vf); }
#elif defined(H_PREV)
void h_vf_get_prev_page(void) { OggVorbis_File *vf = malloc(sizeof *vf); ogg_page *og = malloc(sizeof *og); ogg_int64_t begin; _get_prev_page(vf, begin, og); }
#elif defined(H_PREVS)
void h_vf_get_prev_page_serial(void) {
  OggVorbis_File *vf = malloc(sizeof *vf); ogg_int64_t begin; long *list; int n; int *serialno = malloc(sizeof(int)); ogg_int64_t *granpos = malloc(sizeof(ogg_int64_t));
  _get_prev_page_serial(vf, begin, list, n, serialno, granpos);
}
#else
void h_vf_get_next_page(void) {
  OggVorbis_File *vf = malloc(sizeof *vf); ogg_page *og = malloc(sizeof *og); ogg_int64_t boundary;
  g_off_in = vf->offset; g_rem_in = g_remaining;
  _get_next_page(vf, og, boundary);
}
#endif
