#include "info.spec.h"
#include VERIF_SRC
void h_info_unpack_info(void) {
  vorbis_info *vi; oggpack_buffer *opb;
  int r = _vorbis_unpack_info(vi, opb);
  VREACH(r == 0, "accepted");
  VREACH(r == OV_EBADHEADER, "rejected");
  VREACH(r == OV_EVERSION, "version");
  VREACH(r == OV_EFAULT, "efault");
}
