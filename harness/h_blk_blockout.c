#define VERIF_UNIT_BLOCKOUT
#define VERIF_UNIT_WROTE   /* (suppresses the helper's enforce-side contract; unused here) */
#include "block_ana.spec.h"
#include VERIF_SRC
void h_blk_blockout(void) {
  vorbis_dsp_state *v = malloc(sizeof *v); vorbis_info *vi = malloc(sizeof *vi); codec_setup_info *ci = malloc(sizeof *ci);
  private_state *b = malloc(sizeof *b); vorbis_block *vb = malloc(sizeof *vb); vorbis_block_internal *vbi = malloc(sizeof *vbi);
  v->vi = vi; vi->codec_setup = ci; v->backend_state = b; vb->internal = vbi;
  b->psy_g_look = malloc(sizeof(vorbis_look_psy_global)); b->ve = malloc(sizeof(envelope_lookup));
  __CPROVER_assume(v->pcm_storage >= 0 && v->pcm_storage <= (1 << 28));
  v->pcm = malloc(VERIF_MAXCH * sizeof(float *));
  for (int c = 0; c < VERIF_MAXCH; c++) v->pcm[c] = malloc((long)v->pcm_storage * sizeof(float));
  vorbis_analysis_blockout(v, vb);
}
