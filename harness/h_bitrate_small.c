#include "bitrate.spec.h"
#include VERIF_SRC
int nondet_int(void);
#ifdef VERIF_UNIT_BRINIT
void h_bitrate_init(void) {
  vorbis_info *vi = malloc(sizeof *vi); codec_setup_info *ci = malloc(sizeof *ci); bitrate_manager_state *bm = malloc(sizeof *bm);
  vi->codec_setup = ci;
  vorbis_bitrate_init(vi, bm);
}
#endif
#ifdef VERIF_UNIT_BRFLUSH
void h_bitrate_flush(void) {
  vorbis_dsp_state *vd = malloc(sizeof *vd); private_state *b = malloc(sizeof *b); vd->backend_state = b;
  if (nondet_int()) b->bms.vb = NULL;
  else {
    vorbis_block *vb = malloc(sizeof *vb); vorbis_block_internal *vbi = malloc(sizeof *vbi);
    vb->vd = vd; vb->internal = vbi; b->bms.vb = vb;
    for (int i = 0; i < PACKETBLOBS; i++) vbi->packetblob[i] = malloc(sizeof(oggpack_buffer));
  }
  g_fvb = b->bms.vb;
  __CPROVER_assume(b->bms.choice >= 0 && b->bms.choice < PACKETBLOBS);
  if (g_fvb) g_fblob = ((vorbis_block_internal *)g_fvb->internal)->packetblob[b->bms.managed ? b->bms.choice : PACKETBLOBS / 2];
  ogg_packet *op = nondet_int() ? malloc(sizeof *op) : NULL;
  vorbis_bitrate_flushpacket(vd, op);
}
#endif
