#include "vf_seek.spec.h"
#include VERIF_SRC
void h_vf_initial_pcmoffset(void) { OggVorbis_File *vf; vorbis_info *vi; ogg_int64_t r = _initial_pcmoffset(vf, vi); VREACH(r == 0, "zero"); VREACH(r > 1000, "positive"); }
