#include "res0_inv.spec.h"
#include VERIF_SRC
#include "res0_inv_post.spec.h"
/* the bundle as mapping0_inverse builds it: ch <= 256 vectors and their flags */
static void build(int ch, float **in, int *nonzero) {
  g_cnt[0] = 0;
  for (int i = 0; i < VERIF_RES_MAXCH; i++) {
    if (i < ch) { g_row[i] = in[i]; g_cnt[i + 1] = g_cnt[i] + (nonzero[i] ? 1 : 0); }
  }
}
void H_NAME(void) {
  int ch; __CPROVER_assume(ch >= 0 && ch <= VERIF_RES_MAXCH);
  float **in = malloc(sizeof(float *) * VERIF_RES_MAXCH); int *nonzero = malloc(sizeof(int) * VERIF_RES_MAXCH);
  vorbis_block *vb; vorbis_look_residue *vl;
  __CPROVER_assume(g_k >= 0 && g_k < VERIF_RES_MAXCH);
  build(ch, in, nonzero);
  H_FN(vb, vl, in, nonzero, ch);
}
