#include "res0.spec.h"
#include VERIF_SRC
/* the setup as _vorbis_unpack_books has built it when residues are read: `books`
   static codebooks (all book_param slots below `books` valid) */
void h_res0_unpack(void) {
  vorbis_info *vi = malloc(sizeof *vi); codec_setup_info *ci = malloc(sizeof *ci); oggpack_buffer *opb;
  vi->codec_setup = ci;
  __CPROVER_assume(ci->books >= 1 && ci->books <= VERIF_MAXBOOKS);
  for (int i = 0; i < VERIF_MAXBOOKS; i++) ci->book_param[i] = (i < ci->books) ? malloc(sizeof(static_codebook)) : NULL;
  vorbis_info_residue *r = res0_unpack(vi, opb);
  if (r) res0_free_info(r);
}
#ifdef H_ICOUNT
void h_res0_icount(void) { unsigned v; int r = icount(v); }
#endif
