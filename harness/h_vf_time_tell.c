#include "vf_access.spec.h"
#include VERIF_SRC
void h_vf_time_tell(void) { OggVorbis_File *vf;  ov_time_tell(vf); }
