#include "codebook_decode.spec.h"
#include VERIF_SRC
void h_cb_decode(void) {
  codebook *book = malloc(sizeof *book);
  __CPROVER_assume(book->used_entries >= 1 && book->used_entries <= (1L << 24) && book->dec_firsttablen >= 1 && book->dec_firsttablen <= 8);
  book->codelist = malloc(sizeof(ogg_uint32_t) * book->used_entries);
  book->dec_codelengths = malloc(book->used_entries);
  book->dec_firsttable = malloc(sizeof(ogg_uint32_t) * (1L << book->dec_firsttablen));
  oggpack_buffer *b = malloc(sizeof *b);
  g_lastw = -1; g_adv = -1;
  decode_packed_entry_number(book, b);
}
