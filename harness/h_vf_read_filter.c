#include "vf_read.spec.h"
#include VERIF_SRC
void h_vf_read_filter(void) {
  OggVorbis_File *vf; int length, bigendianp, word, sgned; int *bitstream;
  __CPROVER_assume(length >= 0);
  char *buffer = malloc(length);
  g_buf0 = buffer;
  __CPROVER_assume(0 <= g_b && g_b < length);
  g_bufold = buffer[g_b];
  long r = ov_read_filter(vf, buffer, length, bigendianp, word, sgned, bitstream, 0, 0);
#if VERIF_CASE != 0
  VREACH(r > 0, "frames returned");
  VREACH(r == 0, "eof");
  VREACH(r < 0 && r != OV_EINVAL, "other error");
#endif
  VREACH(r == OV_EINVAL, "einval");
}
