#include "synth_packet.spec.h"
#include VERIF_SRC
#include "registry.c"
int nondet_int(void);
/* decode state as vorbis_synthesis_init leaves it: mode table valid below
   `modes` and NULL beyond (calloc'd setup), every mode's mapping of type 0 */
static vorbis_info *mk_vi(void) {
  vorbis_info *vi = malloc(sizeof *vi);
  codec_setup_info *ci = malloc(sizeof *ci);
  vi->codec_setup = ci;
  __CPROVER_assume(ci->modes >= 1 && ci->modes <= 64 && ci->maps >= 1 && ci->maps <= 64);
  for (int m = 0; m < 64; m++) {
    if (m < ci->modes) {
      vorbis_info_mode *mo = malloc(sizeof *mo);
      __CPROVER_assume((mo->blockflag == 0 || mo->blockflag == 1) && mo->mapping >= 0 && mo->mapping < ci->maps);
      ci->mode_param[m] = mo;
    } else ci->mode_param[m] = NULL;
  }
  for (int k = 0; k < 64; k++) { ci->map_type[k] = 0; ci->map_param[k] = malloc(8); }
  return vi;
}
static vorbis_block *mk_block(vorbis_info *vi) {
  vorbis_block *vb = malloc(sizeof *vb);
  vorbis_dsp_state *vd = malloc(sizeof *vd);
  private_state *b = malloc(sizeof *b);
  vb->vd = vd; vd->vi = vi; vd->backend_state = b;
  g_pcm_in = vb->pcm;
  return vb;
}
#ifdef H_SYN
void h_syn_synthesis(void) { vorbis_info *vi = mk_vi(); vorbis_block *vb = mk_block(vi); ogg_packet *op = malloc(sizeof *op); vorbis_synthesis(vb, op); }
#endif
#ifdef H_TRACK
void h_syn_trackonly(void) { vorbis_info *vi = mk_vi(); vorbis_block *vb = mk_block(vi); ogg_packet *op = malloc(sizeof *op); vorbis_synthesis_trackonly(vb, op); }
#endif
#ifdef H_BLOCKSIZE
void h_syn_blocksize(void) { vorbis_info *vi = mk_vi(); if (nondet_int()) vi->codec_setup = NULL; ogg_packet *op = malloc(sizeof *op); vorbis_packet_blocksize(vi, op); }
#endif
