#include "vf_access.spec.h"
#include VERIF_SRC
void h_vf_serialnumber(void) { OggVorbis_File *vf; int i; ov_serialnumber(vf,i); }
