#include "floor1.spec.h"
#include VERIF_SRC
void h_floor1_unpack(void) {
  vorbis_info *vi; oggpack_buffer *opb;
  vorbis_info_floor1 *f = (vorbis_info_floor1 *)floor1_unpack(vi, opb);
  VREACH(f == NULL, "rejected");
  VREACH(f != NULL && f->partitions == 2 && f->class_dim[f->partitionclass[0]] == 2, "accepted, two partitions");
  if (f) floor1_free_info(f);
}
