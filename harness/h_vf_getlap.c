#include "vf_getlap.spec.h"
#include VERIF_SRC
#include "vf_getlap_post.spec.h"
/* rows sized EXACTLY lapsize floats: any store beyond the lap region is out of bounds */
void h_vf_getlap(void) {
  OggVorbis_File *vf = malloc(sizeof *vf); vorbis_info *vi = malloc(sizeof *vi);
  int lapsize; __CPROVER_assume(lapsize >= 0 && lapsize <= 4096 && g_chs >= 1 && g_chs <= 2);
  vi->channels = g_chs;
  float **lappcm = malloc(sizeof(float *) * 2);
  lappcm[0] = malloc(sizeof(float) * lapsize); lappcm[1] = g_chs > 1 ? malloc(sizeof(float) * lapsize) : NULL;
  g_decrows = malloc(sizeof(float *) * 2);
  g_decrows[0] = malloc(sizeof(float) * DEC_MAXROW); g_decrows[1] = g_chs > 1 ? malloc(sizeof(float) * DEC_MAXROW) : NULL;
  _ov_getlap(vf, vi, &vf->vd, lappcm, lapsize);
}
