#include "headerin.spec.h"
#include VERIF_SRC
int nondet_int(void);
void h_headerin(void) {
  vorbis_info *vi = malloc(sizeof *vi); vorbis_comment *vc = malloc(sizeof *vc);
  vi->codec_setup = nondet_int() ? malloc(sizeof(codec_setup_info)) : NULL;
  ogg_packet *op = nondet_int() ? malloc(sizeof *op) : NULL;
  vorbis_synthesis_headerin(vi, vc, op);
}
