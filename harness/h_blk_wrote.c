#define VERIF_UNIT_WROTE
#include "block_ana.spec.h"
#include VERIF_SRC
void h_blk_wrote(void) {
  vorbis_dsp_state *v = malloc(sizeof *v); vorbis_info *vi = malloc(sizeof *vi); codec_setup_info *ci = malloc(sizeof *ci);
  v->vi = vi; vi->codec_setup = ci;
  __CPROVER_assume(v->pcm_storage >= 0 && v->pcm_storage <= (1 << 28));
  v->pcm = malloc(VERIF_MAXCH * sizeof(float *)); v->pcmret = malloc(VERIF_MAXCH * sizeof(float *));
  for (int c = 0; c < VERIF_MAXCH; c++) v->pcm[c] = malloc((long)v->pcm_storage * sizeof(float));
  int vals;
  vorbis_analysis_wrote(v, vals);
}
