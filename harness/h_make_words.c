#define VERIF_MAKE_WORDS
#include "codebook.spec.h"
#include VERIF_SRC
void h_make_words(void) {
  char *l; long n, sp;
  ogg_uint32_t *r = _make_words(l, n, sp);
  VREACH(r == NULL, "rejected"); VREACH(r != NULL && n == 3, "accepted");
  if (r) free(r);   /* the caller owns an accepted list; a rejected one must not leak */
}
