#include "vf_ready.spec.h"
#include VERIF_SRC
#include "vf_ready_post.spec.h"
/* the handle as open / the packet fetcher leave it: a seekable handle has `links`
   table slots and 0 <= current_link < links; a streaming handle has ONE slot
   while current_link counts the links it has walked through */
void H_NAME(void) {
  OggVorbis_File *vf = malloc(sizeof *vf);
  __CPROVER_assume((vf->seekable == 0 || vf->seekable == 1) && vf->links >= 1 && vf->links <= (1 << 20) && vf->current_link >= 0);
  __CPROVER_assume(vf->seekable ? vf->current_link < vf->links : vf->links == 1);
  vf->vi = malloc(sizeof(vorbis_info) * vf->links);
#ifdef H_CLEAR
  _decode_clear(vf);
#else
  _make_decode_ready(vf);
#endif
}
