#include "codebook_vec.spec.h"
#include VERIF_SRC
#include "codebook_vec_post.spec.h"
/* a decode book with its value table sized used_entries*dim floats */
void H_NAME(void) {
  codebook *book = malloc(sizeof *book);
  __CPROVER_assume(VBOOK_OK(book));
#ifdef H_SMALL
  __CPROVER_assume(book->used_entries * book->dim <= H_SMALL && book->dim <= H_SMALL);
#endif
  book->valuelist = malloc(sizeof(float) * (book->used_entries * book->dim));
  int n; __CPROVER_assume(n >= 0 && n <= (1 << 24));
  float *a = malloc(sizeof(float) * n);
  oggpack_buffer *b;
  H_FN(book, a, b, n);
}
