#include "vf_access.spec.h"
#include VERIF_SRC
void h_vf_pcm_total(void) { OggVorbis_File *vf; int i; ov_pcm_total(vf,i); }
