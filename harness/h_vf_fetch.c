#include "vf_fetch.spec.h"
#include VERIF_SRC
void h_vf_fetch(void) { OggVorbis_File *vf; ogg_packet *op_in; int readp, spanp; _fetch_and_process_packet(vf, op_in, readp, spanp); }
