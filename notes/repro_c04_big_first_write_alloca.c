/* C04/C15 (input submitted "in pieces of any sizes"): an application that hands the
   encoder its whole input in one vorbis_analysis_wrote() call makes
   _preextrapolate_helper() alloca(pcm_current*sizeof(float)) - 16 MB for 4 M
   samples - on the default 8 MB thread stack: SIGSEGV.
   build: gcc -g -I/repo/include this.c /repo/_build/lib/libvorbisenc.a /repo/_build/lib/libvorbis.a -logg -lm */
#include <stdio.h>
#include <math.h>
#include <vorbis/codec.h>
#include <vorbis/vorbisenc.h>
int main(void) {
  vorbis_info vi; vorbis_dsp_state vd; vorbis_block vb; ogg_packet op;
  long N = 4000000, total = 0;
  vorbis_info_init(&vi);
  if (vorbis_encode_init_vbr(&vi, 1, 44100, 0.3f)) return 2;
  vorbis_analysis_init(&vd, &vi); vorbis_block_init(&vd, &vb);
  float **buf = vorbis_analysis_buffer(&vd, N);
  for (long i = 0; i < N; i++) buf[0][i] = 0.5f * sinf(i * 0.01f);
  vorbis_analysis_wrote(&vd, N);          /* the whole input at once */
  vorbis_analysis_wrote(&vd, 0);
  while (vorbis_analysis_blockout(&vd, &vb) == 1) {
    vorbis_analysis(&vb, NULL); vorbis_bitrate_addblock(&vb);
    while (vorbis_bitrate_flushpacket(&vd, &op)) total = op.granulepos;
  }
  fprintf(stderr, "last granule position %ld (expected %ld)\n", total, N);
  vorbis_block_clear(&vb); vorbis_dsp_clear(&vd); vorbis_info_clear(&vi);
  return total == N ? 0 : 1;
}
