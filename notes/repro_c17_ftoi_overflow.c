/* C17 finding F5 (function level): the integer conversion of ov_read_filter
   before the fix, applied to a decoded sample >= 65536.0.
   gcc -I/repo/lib -I/repo/include notes/repro_c17_ftoi_overflow.c -lm && ./a.out
   prints: sample 65536.000000 -> -32768 (expected 32767) */
#include <stdio.h>
#include "os.h"
int main(void){
  volatile float x=65536.0f;
  int val=vorbis_ftoi(x*32768.f);            /* the statement at lib/vorbisfile.c:2029 before the fix */
  if(val>32767)val=32767; else if(val<-32768)val=-32768;
  printf("sample %f -> %d (expected 32767)\n",x,val);
  return val==32767?0:1;
}
