#include <stdio.h>
#include <stdlib.h>
#include <string.h>
#include <math.h>
#include <signal.h>
#include <unistd.h>
#ifdef __GLIBC__
#include <malloc.h>
#endif
#include <vorbis/codec.h>
#include <vorbis/vorbisenc.h>
#include <vorbis/vorbisfile.h>

/* ---------- in-memory physical stream ---------- */
typedef struct { unsigned char *data; long len, cap, pos; int closes; } membuf;

static void mb_append(membuf *m, const void *p, long n){
  if(m->len+n>m->cap){
    m->cap=(m->len+n)*2+4096;
    m->data=realloc(m->data,m->cap);
    if(!m->data){perror("realloc");exit(99);}
  }
  memcpy(m->data+m->len,p,n);
  m->len+=n;
}
static void mb_page(membuf *m, ogg_page *og){
  mb_append(m,og->header,og->header_len);
  mb_append(m,og->body,og->body_len);
}

/* deterministic noise so that each link spans many pages */
static float noise(void){
  static unsigned long s=12345;
  s=(s*1103515245UL+12345UL)&0x7fffffffUL;
  return (float)s/(float)0x40000000UL-1.f;
}

/* encode one logical stream (one link) and append it to m */
static void encode_link(membuf *m,int channels,long rate,long nsamples,int serial,double freq){
  vorbis_info vi; vorbis_comment vc; vorbis_dsp_state vd; vorbis_block vb;
  ogg_stream_state os; ogg_page og; ogg_packet op;
  ogg_packet h1,h2,h3;
  long done=0; int eos=0;

  vorbis_info_init(&vi);
  if(vorbis_encode_init_vbr(&vi,channels,rate,0.3f)){fprintf(stderr,"encode init failed\n");exit(99);}
  vorbis_comment_init(&vc);
  vorbis_comment_add_tag(&vc,"ENCODER","C03 demo");
  vorbis_analysis_init(&vd,&vi);
  vorbis_block_init(&vd,&vb);
  ogg_stream_init(&os,serial);

  vorbis_analysis_headerout(&vd,&vc,&h1,&h2,&h3);
  ogg_stream_packetin(&os,&h1);
  ogg_stream_packetin(&os,&h2);
  ogg_stream_packetin(&os,&h3);
  while(ogg_stream_flush(&os,&og))mb_page(m,&og);

  while(!eos){
    if(done<nsamples){
      long n=nsamples-done, i; int c;
      float **buf;
      if(n>1024)n=1024;
      buf=vorbis_analysis_buffer(&vd,n);
      for(i=0;i<n;i++)
        for(c=0;c<channels;c++)
          buf[c][i]=0.3f*sinf((float)(2.*M_PI*freq*(done+i)/rate)+c)+0.2f*noise();
      vorbis_analysis_wrote(&vd,n);
      done+=n;
    }else
      vorbis_analysis_wrote(&vd,0);

    while(vorbis_analysis_blockout(&vd,&vb)==1){
      vorbis_analysis(&vb,NULL);
      vorbis_bitrate_addblock(&vb);
      while(vorbis_bitrate_flushpacket(&vd,&op)){
        ogg_stream_packetin(&os,&op);
        while(!eos){
          if(!ogg_stream_pageout(&os,&og))break;
          mb_page(m,&og);
          if(ogg_page_eos(&og))eos=1;
        }
      }
    }
  }
  ogg_stream_clear(&os);
  vorbis_block_clear(&vb);
  vorbis_dsp_clear(&vd);
  vorbis_comment_clear(&vc);
  vorbis_info_clear(&vi);
}

/* ---------- callbacks ---------- */
static size_t cb_read(void *ptr,size_t sz,size_t nm,void *ds){
  membuf *m=ds; long want=(long)(sz*nm), left=m->len-m->pos;
  if(want>left)want=left;
  if(want<0)want=0;
  memcpy(ptr,m->data+m->pos,want);
  m->pos+=want;
  return sz?want/sz:0;
}
static int cb_seek(void *ds,ogg_int64_t off,int whence){
  membuf *m=ds; ogg_int64_t np;
  switch(whence){
  case SEEK_SET:np=off;break;
  case SEEK_CUR:np=m->pos+off;break;
  case SEEK_END:np=m->len+off;break;
  default:return -1;
  }
  if(np<0||np>m->len)return -1;
  m->pos=(long)np;
  return 0;
}
static long cb_tell(void *ds){ return ((membuf*)ds)->pos; }
static int cb_close(void *ds){ ((membuf*)ds)->closes++; return 0; }

/* reproducer (C12/C03): the read callback reports end of data (returns 0, no
   errno) from some point on DURING ov_open_callbacks.  The backward page search
   used to find the end of the stream (_get_prev_page_serial) then never
   returns: with nothing found between offset 0 and the end it restarts at
   offset 0 for ever (its give-up test reads vf->offset<0, which is never true,
   where the local `offset` was meant). */
static long reads_left;
static size_t cb_read_f(void *ptr,size_t sz,size_t nm,void *ds){
  if(reads_left<=0) return 0;          /* end of data, at any point */
  reads_left--;
  return cb_read(ptr,sz,nm,ds);
}
static void on_alarm(int sig){ (void)sig; const char *msg="HANG: ov_open_callbacks did not return within 3 s after the read callback started reporting end of data\n"; write(1,msg,strlen(msg)); _exit(1); }
int main(void){
  membuf m; memset(&m,0,sizeof m);
  encode_link(&m,2,44100,44100*2,1234,440.0);
  signal(SIGALRM,on_alarm);
  for(long k=0;k<=40;k++){
    OggVorbis_File vf; ov_callbacks cb={cb_read_f,cb_seek,cb_close,cb_tell};
    m.pos=0; reads_left=k;
    alarm(3);
    int r=ov_open_callbacks(&m,&vf,NULL,0,cb);
    alarm(0);
    if(r==0) ov_clear(&vf);
  }
  printf("OK: every open returned (error code or success)\n");
  return 0;
}
