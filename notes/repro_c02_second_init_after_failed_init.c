#include <stdio.h>
#include <string.h>
#include <stdlib.h>
#include <ogg/ogg.h>
#include <vorbis/codec.h>
static void wstr(oggpack_buffer *o,const char*s){while(*s)oggpack_write(o,*s++,8);}
/* C02 (whatever order of calls): vorbis_synthesis_init fails on a codebook whose
   Huffman tree is underpopulated, but leaves ci->fullbooks allocated and half built;
   a SECOND vorbis_synthesis_init on the same vorbis_info then skips the codebook
   set-up, returns 0, and the first audio packet divides by the zeroed book's dim
   (SIGFPE in _01inverse).
   build: gcc -g -I/repo/include this.c /repo/_build/lib/libvorbis.a -logg -lm */
int main(int argc,char**argv){
  int dim=1;
  vorbis_info vi; vorbis_comment vc; ogg_packet op; oggpack_buffer o; int r;
  vorbis_info_init(&vi); vorbis_comment_init(&vc);
  /* id */
  oggpack_writeinit(&o); oggpack_write(&o,1,8); wstr(&o,"vorbis");
  oggpack_write(&o,0,32); oggpack_write(&o,1,8); oggpack_write(&o,44100,32);
  oggpack_write(&o,0,32);oggpack_write(&o,0,32);oggpack_write(&o,0,32);
  oggpack_write(&o,8,4);oggpack_write(&o,11,4);oggpack_write(&o,1,1);
  memset(&op,0,sizeof op); op.packet=oggpack_get_buffer(&o); op.bytes=oggpack_bytes(&o); op.b_o_s=1;
  r=vorbis_synthesis_headerin(&vi,&vc,&op); printf("id %d\n",r);
  /* comment */
  oggpack_buffer c; oggpack_writeinit(&c); oggpack_write(&c,3,8); wstr(&c,"vorbis");
  oggpack_write(&c,0,32); oggpack_write(&c,0,32); oggpack_write(&c,1,1);
  memset(&op,0,sizeof op); op.packet=oggpack_get_buffer(&c); op.bytes=oggpack_bytes(&c);
  r=vorbis_synthesis_headerin(&vi,&vc,&op); printf("comment %d\n",r);
  /* setup */
  oggpack_buffer s; oggpack_writeinit(&s); oggpack_write(&s,5,8); wstr(&s,"vorbis");
  oggpack_write(&s,1,8); /* 2 books */
  oggpack_write(&s,0x564342,24); oggpack_write(&s,1,16); oggpack_write(&s,2,24); oggpack_write(&s,0,1); oggpack_write(&s,0,1); oggpack_write(&s,0,5); oggpack_write(&s,1,5); oggpack_write(&s,0,4); /* lengths 1,2: underpopulated */
  oggpack_write(&s,0x564342,24); oggpack_write(&s,dim,16); oggpack_write(&s,1,24);
  oggpack_write(&s,0,1); /* unordered */ oggpack_write(&s,0,1); /* no unused */
  oggpack_write(&s,0,5); /* length 1 */
  oggpack_write(&s,2,4); /* maptype 2 */
  oggpack_write(&s,0,32); oggpack_write(&s,0,32); oggpack_write(&s,0,4); oggpack_write(&s,0,1);
  {int q;for(q=0;q<dim;q++)oggpack_write(&s,0,1);}
  oggpack_write(&s,0,6); oggpack_write(&s,0,16); /* times */
  oggpack_write(&s,0,6); oggpack_write(&s,1,16); /* 1 floor type 1 */
  oggpack_write(&s,0,5); /* partitions 0 */ oggpack_write(&s,0,2); /* mult */ oggpack_write(&s,7,4); /* rangebits */
  oggpack_write(&s,0,6); oggpack_write(&s,0,16); /* 1 residue type 0 */
  oggpack_write(&s,0,24);oggpack_write(&s,64,24);oggpack_write(&s,15,24);oggpack_write(&s,0,6);oggpack_write(&s,0,8);
  oggpack_write(&s,1,3);oggpack_write(&s,0,1); oggpack_write(&s,1,8); /* cascade 1, book 1 */
  oggpack_write(&s,0,6); oggpack_write(&s,0,16); /* 1 map type 0 */
  oggpack_write(&s,0,1);oggpack_write(&s,0,1);oggpack_write(&s,0,2);
  oggpack_write(&s,0,8);oggpack_write(&s,0,8);oggpack_write(&s,0,8);
  oggpack_write(&s,0,6); /* 1 mode */
  oggpack_write(&s,0,1);oggpack_write(&s,0,16);oggpack_write(&s,0,16);oggpack_write(&s,0,8);
  oggpack_write(&s,1,1);
  memset(&op,0,sizeof op); op.packet=oggpack_get_buffer(&s); op.bytes=oggpack_bytes(&s);
  r=vorbis_synthesis_headerin(&vi,&vc,&op); printf("setup %d\n",r); fflush(stdout);
  if(r==0){ vorbis_dsp_state vd; vorbis_block vb; r=vorbis_synthesis_init(&vd,&vi); printf("first init %d (expected: nonzero)\n",r); fflush(stdout);
    r=vorbis_synthesis_init(&vd,&vi); printf("second init %d\n",r); fflush(stdout);
    if(r){ printf("refused again: ok\n"); vorbis_comment_clear(&vc); vorbis_info_clear(&vi); return 0; }
    vorbis_block_init(&vd,&vb);
    oggpack_buffer a; oggpack_writeinit(&a); oggpack_write(&a,0,1); /* audio */
    oggpack_write(&a,1,1); /* floor nonzero */ oggpack_write(&a,100,8); oggpack_write(&a,100,8);
    { int q; for(q=0;q<64;q++) oggpack_write(&a,0,8); }
    memset(&op,0,sizeof op); op.packet=oggpack_get_buffer(&a); op.bytes=oggpack_bytes(&a); op.packetno=3;
    r=vorbis_synthesis(&vb,&op); printf("synthesis %d\n",r); fflush(stdout);
    vorbis_block_clear(&vb); vorbis_dsp_clear(&vd);}
  vorbis_comment_clear(&vc); vorbis_info_clear(&vi); printf("done\n");
}
