/* C03/C12 finding F4: ov_time_tell() with pcm_offset == -1 (the state every
   failed seek leaves: ready_state=OPENED, pcm_offset=-1) ran its link loop down
   to link=-1 and read vf->vi[-1].rate.  The handle below is exactly that state
   for a one-link seekable file (fields as _open_seekable2 + seek_error leave them).
   gcc -g -fsanitize=address -I/repo/include notes/repro_c03_time_tell_unset_offset.c \
       <build with ASan>/lib/libvorbisfile.a <...>/libvorbis.a -logg -lm
   before the fix: AddressSanitizer heap-buffer-overflow READ in ov_time_tell */
#include <stdlib.h>
#include <string.h>
#include <stdio.h>
#include <vorbis/vorbisfile.h>
int main(void){
  OggVorbis_File vf; memset(&vf,0,sizeof vf);
  vf.seekable=1; vf.ready_state=2 /* OPENED */; vf.links=1;
  vf.pcmlengths=calloc(2,sizeof(ogg_int64_t)); vf.pcmlengths[1]=44100;
  vf.vi=calloc(1,sizeof(vorbis_info)); vf.vi[0].rate=44100;
  vf.pcm_offset=-1;
  printf("%f\n",ov_time_tell(&vf));
  return 0;
}
