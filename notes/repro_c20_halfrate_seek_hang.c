/* C20/C03/C08 finding F11: with half-rate decoding on, ov_pcm_seek() to the even
   position just past a link boundary never returns when the preceding links'
   total length is odd: the sample-discard loop computes
   target=(pos-pcm_offset)>>1 == 0 and makes no progress.
   gcc -g -I/repo/include notes/repro_c20_halfrate_seek_hang.c /repo/_build/lib/libvorbisfile.a \
       /repo/_build/lib/libvorbisenc.a /repo/_build/lib/libvorbis.a -logg -lm && ./a.out
   exit 0: seek returned; exit 1 (after 10 s alarm): hang */
#include <stdio.h>
#include <stdlib.h>
#include <string.h>
#include <signal.h>
#include <unistd.h>
#include <math.h>
#include <vorbis/vorbisenc.h>
#include <vorbis/vorbisfile.h>
typedef struct { unsigned char *d; size_t n, cap, pos; } mem;
static void put(mem *m, const void *p, size_t n){ if(m->n+n>m->cap){ m->cap=(m->n+n)*2; m->d=realloc(m->d,m->cap);} memcpy(m->d+m->n,p,n); m->n+=n; }
static void page(mem *m, ogg_page *og){ put(m,og->header,og->header_len); put(m,og->body,og->body_len); }
static void encode_link(mem *m, long N, int serial){
  vorbis_info vi; vorbis_comment vc; vorbis_dsp_state vd; vorbis_block vb; ogg_stream_state os; ogg_page og; ogg_packet op,h1,h2,h3;
  vorbis_info_init(&vi); vorbis_encode_init_vbr(&vi,1,44100,0.3f); vorbis_comment_init(&vc);
  vorbis_analysis_init(&vd,&vi); vorbis_block_init(&vd,&vb); ogg_stream_init(&os,serial);
  vorbis_analysis_headerout(&vd,&vc,&h1,&h2,&h3); ogg_stream_packetin(&os,&h1); ogg_stream_packetin(&os,&h2); ogg_stream_packetin(&os,&h3);
  while(ogg_stream_flush(&os,&og)) page(m,&og);
  long done=0; int eos=0;
  while(!eos){
    long n = N-done>1024?1024:N-done;
    if(n>0){ float **b=vorbis_analysis_buffer(&vd,n); for(long i=0;i<n;i++) b[0][i]=0.4f*sinf((done+i)*0.05f); vorbis_analysis_wrote(&vd,n); done+=n; }
    else vorbis_analysis_wrote(&vd,0);
    while(vorbis_analysis_blockout(&vd,&vb)==1){ vorbis_analysis(&vb,NULL); vorbis_bitrate_addblock(&vb);
      while(vorbis_bitrate_flushpacket(&vd,&op)){ ogg_stream_packetin(&os,&op);
        while(!eos && ogg_stream_pageout(&os,&og)){ page(m,&og); if(ogg_page_eos(&og)) eos=1; } } }
  }
  ogg_stream_clear(&os); vorbis_block_clear(&vb); vorbis_dsp_clear(&vd); vorbis_comment_clear(&vc); vorbis_info_clear(&vi);
}
static size_t rd(void *p,size_t s,size_t n,void *d){ mem *m=d; size_t k=s*n; if(k>m->n-m->pos)k=m->n-m->pos; memcpy(p,m->d+m->pos,k); m->pos+=k; return k/s; }
static int sk(void *d,ogg_int64_t o,int w){ mem *m=d; ogg_int64_t b=w==SEEK_SET?0:w==SEEK_CUR?(ogg_int64_t)m->pos:(ogg_int64_t)m->n; if(b+o<0||b+o>(ogg_int64_t)m->n)return -1; m->pos=b+o; return 0; }
static long tl(void *d){ return ((mem*)d)->pos; }
static void on_alarm(int s){ (void)s; write(1,"HANG: ov_pcm_seek did not return within 10 s\n",45); _exit(1); }
int main(void){
  mem m={0}; encode_link(&m,20001,1); encode_link(&m,30000,2);
  OggVorbis_File vf; ov_callbacks cb={rd,sk,NULL,tl};
  if(ov_open_callbacks(&m,&vf,NULL,0,cb)){ printf("open failed\n"); return 2; }
  ogg_int64_t L0=ov_pcm_total(&vf,0); printf("links=%ld L0=%ld\n",ov_streams(&vf),(long)L0);
  if(ov_halfrate(&vf,1)){ printf("halfrate refused\n"); return 2; }
  signal(SIGALRM,on_alarm); alarm(10);
  int r=ov_pcm_seek(&vf,L0+1);
  printf("ov_pcm_seek(%ld) -> %d, tell=%ld\n",(long)L0+1,r,(long)ov_pcm_tell(&vf));
  ov_clear(&vf); return 0;
}
