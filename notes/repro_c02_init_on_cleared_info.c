/* C02 (whatever order of calls / after any rejection the objects can still be used
   and cleared): vorbis_synthesis_init() on a vorbis_info whose set-up was refused
   (codec_setup == NULL after vorbis_info_clear) returns through the early exit of
   _vds_shared_init WITHOUT initialising *v, and vorbis_synthesis_init then calls
   vorbis_dsp_clear() on the caller's uninitialised structure: wild pointer reads/frees.
   build: gcc -g -I/repo/include this.c /repo/_build/lib/libvorbis.a -logg -lm */
#include <stdio.h>
#include <string.h>
#include <vorbis/codec.h>
int main(void) {
  vorbis_info vi; vorbis_dsp_state vd;
  vorbis_info_init(&vi);
  vorbis_info_clear(&vi);              /* what a rejected ID header leaves behind */
  memset(&vd, 0x55, sizeof vd);        /* a stack variable holds whatever was there */
  int r = vorbis_synthesis_init(&vd, &vi);
  fprintf(stderr, "init on a cleared info: %d\n", r);
  vorbis_dsp_clear(&vd);               /* must be harmless after a refused init */
  return r ? 0 : 1;
}
