/* C15: vorbis_encode_setup_managed with a nominal bitrate per channel within
   ~0.04 bit/s of the top of a template's rate range: get_setup_template computes
   base_setting = j + del in FLOAT, which rounds up to exactly `mappings`;
   set-up then reads table[is+1] = table[mappings+1], one element past every
   per-quality table (global-buffer-overflow under ASan).
   build (library sources compiled with ASan):
   gcc -g -fsanitize=address -I/repo/include -I/repo/lib this.c /repo/lib/{analysis,bitrate,block,codebook,envelope,floor0,floor1,info,lookup,lpc,lsp,mapping0,mdct,psy,registry,res0,sharedbook,smallft,synthesis,window,vorbisenc}.c -logg -lm */
#include <stdio.h>
#include <vorbis/codec.h>
#include <vorbis/vorbisenc.h>
int main(void) {
  vorbis_info vi;
  vorbis_info_init(&vi);
  /* 44.1 kHz uncoupled template: rate range tops out at 240001 bit/s per channel;
     12000049/50 = 240000.98 */
  int r = vorbis_encode_setup_managed(&vi, 50, 44100, -1, 12000049, -1);
  fprintf(stderr, "setup_managed: %d\n", r);
  if (r == 0) r = vorbis_encode_setup_init(&vi);
  fprintf(stderr, "setup_init: %d\n", r);
  vorbis_info_clear(&vi);
  return 0;
}
