/* C02 (whatever order of calls): vorbis_synthesis() rejects a packet AFTER it has
   released the block's scratch memory (_vorbis_block_ripcord) but leaves vb->pcm
   pointing into it.  A vorbis_synthesis_blockin() issued anyway reads the rows
   through the released row table: heap-use-after-free.
   build: gcc -g -fsanitize=address -I/repo/include this.c /repo/_build/lib/libvorbisenc.a /repo/_build/lib/libvorbis.a -logg -lm
   (ASan reports the read; without ASan it reads freed memory silently) */
#include <stdio.h>
#include <stdlib.h>
#include <string.h>
#include <math.h>
#include <vorbis/codec.h>
#include <vorbis/vorbisenc.h>
int main(void) {
  vorbis_info vi; vorbis_comment vc; vorbis_dsp_state vd; vorbis_block vb;
  ogg_packet h[3], pk[8]; int npk = 0;
  vorbis_info_init(&vi); vorbis_encode_init_vbr(&vi, 1, 44100, 0.3f);
  vorbis_comment_init(&vc); vorbis_analysis_init(&vd, &vi); vorbis_block_init(&vd, &vb);
  vorbis_analysis_headerout(&vd, &vc, &h[0], &h[1], &h[2]);
  for (int i = 0; i < 3; i++) { unsigned char *p = malloc(h[i].bytes); memcpy(p, h[i].packet, h[i].bytes); h[i].packet = p; }
  float **buf = vorbis_analysis_buffer(&vd, 8192);
  for (int i = 0; i < 8192; i++) buf[0][i] = sinf(i * 0.05f);
  vorbis_analysis_wrote(&vd, 8192); vorbis_analysis_wrote(&vd, 0);
  while (vorbis_analysis_blockout(&vd, &vb) == 1) {
    ogg_packet op; vorbis_analysis(&vb, NULL); vorbis_bitrate_addblock(&vb);
    while (vorbis_bitrate_flushpacket(&vd, &op)) if (npk < 8) { pk[npk] = op; pk[npk].packet = malloc(op.bytes); memcpy(pk[npk].packet, op.packet, op.bytes); npk++; }
  }
  vorbis_block_clear(&vb); vorbis_dsp_clear(&vd); vorbis_comment_clear(&vc); vorbis_info_clear(&vi);
  /* decode */
  vorbis_info_init(&vi); vorbis_comment_init(&vc);
  for (int i = 0; i < 3; i++) if (vorbis_synthesis_headerin(&vi, &vc, &h[i])) return 2;
  vorbis_synthesis_init(&vd, &vi); vorbis_block_init(&vd, &vb);
  if (vorbis_synthesis(&vb, &pk[0])) return 3;
  vorbis_synthesis_blockin(&vd, &vb);
  unsigned char bad = 0x01;                 /* packet type bit set: not audio */
  ogg_packet op = pk[1]; op.packet = &bad; op.bytes = 1;
  int r = vorbis_synthesis(&vb, &op);
  fprintf(stderr, "rejected packet: %d\n", r);
  r = vorbis_synthesis_blockin(&vd, &vb);   /* reads vb->pcm[0][..] */
  fprintf(stderr, "blockin after rejection: %d\n", r);
  return 0;
}
