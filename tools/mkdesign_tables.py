#!/usr/bin/env python3
"""mkdesign_tables.py - regenerate the generated part of DESIGN.md (between the
markers): the list of proof units and the seeded-change detection table."""
import os, sys, json, re
V = os.path.dirname(os.path.dirname(os.path.abspath(__file__)))
sys.path.insert(0, V)
from tools.driver import load_units
units = load_units()
out = ["<!-- GENERATED BEGIN (tools/mkdesign_tables.py) -->", "",
       "### 12.5 All registered proof units (generated from units/*.py)", "",
       "kind: P unbounded proof, B bounded stand-in, L lemma harness over real functions, S supporting static fact.", "",
       "| unit | kind | tier | properties | function | what is decided |", "|---|---|---|---|---|---|"]
for u in units.values():
    out.append("| `%s` | %s | %s | %s | `%s` (%s) | %s%s |" % (u.name, u.kind, u.tier, " ".join(sorted(u.props)), u.enforce or "-", u.src,
               u.note.replace("|", "/"), (" **bound:** " + u.bound.replace("|", "/")) if u.bound else ""))
out += ["", "### 12.6 Seeded changes and the obligations that catch them (generated from seeded/*/meta.json)", "",
        "| seed | property | change (first line of the sub-agent's note) | result | first failing obligation |", "|---|---|---|---|---|"]
sd = os.path.join(V, "seeded")
for name in sorted(os.listdir(sd)):
    mj = os.path.join(sd, name, "meta.json")
    if not os.path.exists(mj):
        continue
    m = json.load(open(mj))
    note = str(m.get("needs_to_manifest", "")).strip().splitlines()
    first = next((l.strip("# ").strip() for l in note if l.strip()), "")[:110]
    det = m.get("detected_by")
    if isinstance(det, dict):
        res = det.get("result", "?")
        ob = (det.get("obligations") or [""])[0].strip()[:150]
    else:
        res, ob = "not run", ""
    out.append("| %s | %s | %s | %s | %s |" % (name, m.get("property"), first.replace("|", "/"), res, ob.replace("|", "/")))
out += ["", "<!-- GENERATED END -->"]
p = os.path.join(V, "DESIGN.md")
s = open(p).read()
blk = "\n".join(out)
if "<!-- GENERATED BEGIN" in s:
    s = re.sub(r"<!-- GENERATED BEGIN.*?<!-- GENERATED END -->", lambda m: blk, s, flags=re.S)
else:
    s = s.rstrip() + "\n\n" + blk + "\n"
open(p, "w").write(s)
print("units:", len(units))
