#!/usr/bin/env python3
"""seed_matrix.py - run the quick (or thorough) check of each seeded change's
property against a scratch copy of /repo with the change applied
(VERIF_REPO=<copy>; /repo itself is never touched).  Writes seeded/MATRIX.json
and updates each seeded/<id>/meta.json 'detected_by'."""
import os, sys, json, subprocess, shutil, re
V = os.path.dirname(os.path.dirname(os.path.abspath(__file__)))
tier = os.environ.get("SEED_TIER", "quick")
only = sys.argv[1:]
man = json.load(open(os.path.join(V, "MANIFEST.json")))
claimed = {c["property_id"] for c in man["checks"]}
res = {}
mp = os.path.join(V, "seeded", "MATRIX.json")
if os.path.exists(mp):
    res = json.load(open(mp))
for name in sorted(os.listdir(os.path.join(V, "seeded"))):
    d = os.path.join(V, "seeded", name)
    if not os.path.isdir(d) or not os.path.exists(os.path.join(d, "patch.diff")):
        continue
    if only and name not in only and name.split("-")[0] not in only:
        continue
    pid = name.split("-")[0]
    if pid not in claimed:
        res[name] = {"property": pid, "result": "property not claimed (no check)"}
        continue
    scratch = "/var/tmp/seedrepo_%s" % name
    shutil.rmtree(scratch, ignore_errors=True)
    os.makedirs(scratch)
    subprocess.run("cp -r /repo/lib /repo/include %s/ && cd %s && git init -q . && git add -A >/dev/null && git commit -qm base >/dev/null" % (scratch, scratch), shell=True)
    a = subprocess.run("git -C %s apply %s" % (scratch, os.path.join(d, "patch.diff")), shell=True, capture_output=True)
    if a.returncode:
        res[name] = {"property": pid, "result": "patch does not apply to current HEAD"}
        shutil.rmtree(scratch, ignore_errors=True)
        continue
    env = dict(os.environ, VERIF_REPO=scratch, VERIF_EVIDENCE_DIR="/var/tmp/seed_evidence")
    # only the units of this property that verify a file the change touches can notice it
    touched = set(re.findall(r"^\+\+\+ b/(\S+)", open(os.path.join(d, "patch.diff")).read(), re.M))
    sys.path.insert(0, V)
    from tools.driver import load_units
    us = [u.name for u in load_units().values() if pid in u.props and (tier == "thorough" or u.tier == "quick") and
          (u.runner or u.src in touched or any(x in touched for x in u.extra_src))]
    # narrower: if some unit is the contract of a function named in a hunk header, run only those
    ptxt = open(os.path.join(d, "patch.diff")).read()
    funcs = set(re.findall(r"^@@[^@]*@@.*?\b([A-Za-z_][A-Za-z0-9_]*)\s*\(", ptxt, re.M))
    # a function header inside the hunk (context or changed line) names the function more reliably
    funcs |= set(re.findall(r"^[ +-](?:static\s+|STIN\s+)?[A-Za-z_][A-Za-z0-9_ \*]*?\b([A-Za-z_][A-Za-z0-9_]*)\s*\([^;]*\)\s*\{\s*$", ptxt, re.M))
    allu = load_units()
    exact = [n for n in us if allu[n].enforce in funcs or allu[n].runner]
    if any(allu[n].enforce in funcs for n in exact):
        us = exact
    elif os.environ.get("SEED_NO_FALLBACK") and not any(allu[n].runner for n in us):
        # no unit has a touched function under contract: the change sits in code that is only
        # an ASSUMED callee contract for this property's units, so it cannot be noticed
        res[name] = {"property": pid, "tier": tier, "result": "missed", "lines": ["no unit has %s under contract" % ",".join(sorted(funcs))]}
        print(name, "missed (function not under contract: %s)" % ",".join(sorted(funcs)))
        shutil.rmtree(scratch, ignore_errors=True)
        json.dump(res, open(mp, "w"), indent=1)
        mj = os.path.join(d, "meta.json")
        if os.path.exists(mj):
            m = json.load(open(mj))
            m["detected_by"] = {"check": "./check %s %s" % (pid, tier), "result": "missed", "obligations": res[name]["lines"]}
            json.dump(m, open(mj, "w"), indent=1)
        continue
    if not us:
        res[name] = {"property": pid, "tier": tier, "result": "missed", "lines": ["no unit of %s verifies %s" % (pid, ",".join(sorted(touched)))]}
        print(name, "missed (no unit on the touched files)")
        shutil.rmtree(scratch, ignore_errors=True)
        json.dump(res, open(mp, "w"), indent=1)
        continue
    cmdl = ["python3", os.path.join(V, "tools", "driver.py"), "check", pid, "--tier", tier]
    for n in us:
        cmdl += ["--unit", n]
    p = subprocess.run(cmdl, capture_output=True, env=env, cwd=V)
    out = p.stdout.decode(errors="replace")
    viol = [l for l in out.splitlines() if l.startswith("VIOLATION") or l.strip().startswith("failed obligation")]
    res[name] = {"property": pid, "tier": tier, "exit": p.returncode,
                 "result": "DETECTED" if p.returncode == 1 else ("undecided" if p.returncode == 2 else "missed"),
                 "lines": viol[:6]}
    print(name, res[name]["result"], viol[:2])
    shutil.rmtree(scratch, ignore_errors=True)
    json.dump(res, open(mp, "w"), indent=1)
    mj = os.path.join(d, "meta.json")
    if os.path.exists(mj):
        m = json.load(open(mj))
        m["detected_by"] = {"check": "./check %s %s" % (pid, tier), "result": res[name]["result"], "obligations": viol[:6]}
        json.dump(m, open(mj, "w"), indent=1)
