#!/bin/sh
# offline setup: nothing to download.  Builds the native differential test of
# the assumed libogg bit-packer model and runs it (supporting fact).
set -e
cd "$(dirname "$0")/.."
mkdir -p evidence replay
gcc -O1 -Icontracts tools/oggmodel_check.c -logg -o /var/tmp/verif_oggmodel_check
/var/tmp/verif_oggmodel_check
cbmc --version >/dev/null
