#!/usr/bin/env python3
"""splice.py - insert CBMC loop-contract clauses into a copy of a /repo source file.

The verified text must stay the code that runs, so this tool only ever *adds*
text: for each (function, loop ordinal) named in a .loops key file it inserts

    /*@VS<*/ <clauses> /*>VS@*/

directly after the closing parenthesis of the loop header (for a do-while:
after the closing parenthesis of the trailing `while(...)`).  Nothing is
dropped or rewritten, line numbers are preserved (the insertion contains no
newline), and `strip()` - an independent regex - must give back the original
bytes, which the driver checks with a byte comparison on every run.

Key file format (one per source file):

    @ <function name> <expected number of loops in that function>
    <ordinal>: <clauses on one line>
    ...

Ordinals count the keywords for / while / do in textual order inside the
function body (a do-while counts once, at its `do`).  A function that is
missing, or whose loop count differs from the expected number, is an
*extraction break* (SpliceError -> driver exit 2), never a violation.
"""
import re, sys

BEGIN = "/*@VS<*/"
END = "/*>VS@*/"
STRIP_RE = re.compile(re.escape(BEGIN) + r".*?" + re.escape(END), re.S)


class SpliceError(Exception):
    pass


def strip(text):
    return STRIP_RE.sub("", text)


# conditional blocks that the real build never compiles (no build system of
# /repo defines these; DESIGN.md section 3): their text is blanked so that the
# brace structure seen by the scanner is the one the compiler sees
NEVER_DEFINED = ("TRAIN_RES", "TRAIN_RESAUX", "TRAIN_FLOOR1", "TRAIN_LSP", "ANALYSIS", "_V_SELFTEST", "DEBUG_MALLOC")
_COND_DEAD = re.compile(r"^[ \t]*#[ \t]*(?:ifdef[ \t]+(?:%s)\b|if[ \t]+(?:0\b|defined[ \t]*\(?[ \t]*(?:%s)\b\)?(?:[ \t]*\|\|[ \t]*defined[ \t]*\(?[ \t]*(?:%s)\b\)?)*[ \t]*(?:/\*.*)?$))" % (("|".join(NEVER_DEFINED),) * 3))
_COND_ANY = re.compile(r"^[ \t]*#[ \t]*(if|ifdef|ifndef|else|elif|endif)\b")


def _blank_dead_conditionals(src):
    """Same-length copy of src with the bodies of `#ifdef X` / `#if defined(X)||...` /
    `#if 0` blocks (X never defined by the build) replaced by spaces, up to the
    matching #else / #endif."""
    lines = src.split("\n")
    out = []
    i = 0
    dead_depth = None   # nesting depth at which a dead block started
    depth = 0
    for ln in lines:
        m = _COND_ANY.match(ln)
        kill = dead_depth is not None
        if m:
            kw = m.group(1)
            if kw in ("if", "ifdef", "ifndef"):
                depth += 1
                if dead_depth is None and _COND_DEAD.match(ln):
                    dead_depth = depth
            elif kw in ("else", "elif"):
                if dead_depth == depth:
                    dead_depth = None
                    kill = False
            elif kw == "endif":
                if dead_depth == depth:
                    dead_depth = None
                    kill = False
                depth -= 1
        out.append(" " * len(ln) if (kill and not m) else ln)
    return "\n".join(out)


def _blank_noncode(src):
    """Return a same-length string where comments, string/char literals and
    preprocessor lines are replaced by spaces (newlines kept)."""
    src = _blank_dead_conditionals(src)
    out = list(src)
    i, n = 0, len(src)
    bol = True  # at beginning of line (only whitespace so far)
    while i < n:
        c = src[i]
        if c == "/" and i + 1 < n and src[i + 1] == "*":
            j = src.find("*/", i + 2)
            j = n if j < 0 else j + 2
            for k in range(i, j):
                if out[k] != "\n":
                    out[k] = " "
            i = j
            continue
        if c == "/" and i + 1 < n and src[i + 1] == "/":
            j = src.find("\n", i)
            j = n if j < 0 else j
            for k in range(i, j):
                out[k] = " "
            i = j
            continue
        if c == '"' or c == "'":
            q = c
            j = i + 1
            while j < n and src[j] != q:
                if src[j] == "\\":
                    j += 1
                j += 1
            j = min(n, j + 1)
            for k in range(i, j):
                if out[k] != "\n":
                    out[k] = " "
            i = j
            bol = False
            continue
        if c == "#" and bol:
            j = i
            while j < n:
                e = src.find("\n", j)
                if e < 0:
                    e = n
                    break
                # line continuation
                if e > 0 and src[e - 1] == "\\":
                    j = e + 1
                    continue
                break
            for k in range(i, e):
                if out[k] != "\n":
                    out[k] = " "
            i = e
            continue
        if c == "\n":
            bol = True
        elif not c.isspace():
            bol = False
        i += 1
    return "".join(out)


def _match(code, i, open_c, close_c):
    """code[i] == open_c; return index of matching close_c."""
    depth = 0
    n = len(code)
    while i < n:
        if code[i] == open_c:
            depth += 1
        elif code[i] == close_c:
            depth -= 1
            if depth == 0:
                return i
        i += 1
    raise SpliceError("unbalanced %s" % open_c)


IDENT = re.compile(r"[A-Za-z_][A-Za-z0-9_]*")


def find_function(code, name):
    """Return (body_open, body_close) indices of the braces of the definition
    of `name` at file scope, or None."""
    depth = 0
    i, n = 0, len(code)
    pat = re.compile(r"\b" + re.escape(name) + r"\b")
    # brace depth per position, computed lazily
    depths = []
    d = 0
    for ch in code:
        if ch == "{":
            depths.append(d)
            d += 1
        elif ch == "}":
            d -= 1
            depths.append(d)
        else:
            depths.append(d)
    for m in pat.finditer(code):
        if depths[m.start()] != 0:
            continue
        j = m.end()
        while j < n and code[j].isspace():
            j += 1
        if j >= n or code[j] != "(":
            continue
        k = _match(code, j, "(", ")")
        j = k + 1
        while j < n and code[j].isspace():
            j += 1
        if j < n and code[j] == "{":
            return j, _match(code, j, "{", "}")
    return None


def find_loops(code, lo, hi):
    """Loops inside code[lo:hi] in textual order.  Returns list of insertion
    offsets (index just after the `)` that takes the clauses)."""
    loops = []  # (ordinal position, insertion offset)
    pending_do = []  # stack of (index into loops, brace depth)
    i = lo
    depth = 0
    for m in IDENT.finditer(code, lo, hi):
        pass
    # manual scan to keep brace depth
    i = lo
    while i < hi:
        ch = code[i]
        if ch == "{":
            depth += 1
            i += 1
            continue
        if ch == "}":
            depth -= 1
            i += 1
            continue
        m = IDENT.match(code, i)
        if not m:
            i += 1
            continue
        w = m.group(0)
        i = m.end()
        if w == "do":
            loops.append(None)
            pending_do.append((len(loops) - 1, depth))
        elif w in ("for", "while"):
            j = i
            while j < hi and code[j].isspace():
                j += 1
            if j >= hi or code[j] != "(":
                raise SpliceError("loop keyword without parenthesis at %d" % i)
            k = _match(code, j, "(", ")")
            ins = k + 1
            if w == "while" and pending_do and pending_do[-1][1] == depth:
                # is this the tail of the innermost pending do?  It is iff the
                # next token after ) is ';'
                t = ins
                while t < hi and code[t].isspace():
                    t += 1
                if t < hi and code[t] == ";":
                    idx, _ = pending_do.pop()
                    loops[idx] = ins
                    i = ins
                    continue
            loops.append(ins)
            # do not skip the header: a loop header cannot contain a loop
            i = ins
    if any(x is None for x in loops):
        raise SpliceError("do without matching while")
    return loops


def parse_keys(path):
    """-> list of (function, expected_loops, {ordinal: clauses})"""
    res = []
    cur = None
    with open(path) as f:
        for ln, line in enumerate(f, 1):
            s = line.strip()
            if not s or s.startswith("#"):
                continue
            if s.startswith("@"):
                parts = s[1:].split()
                if len(parts) != 2:
                    raise SpliceError("%s:%d: bad function line" % (path, ln))
                cur = (parts[0], int(parts[1]), {})
                res.append(cur)
                continue
            m = re.match(r"(\d+)\s*:\s*(.*)$", s)
            if not m or cur is None:
                raise SpliceError("%s:%d: bad key line" % (path, ln))
            cl = m.group(2)
            if BEGIN in cl or END in cl or "\n" in cl:
                raise SpliceError("%s:%d: marker in clause" % (path, ln))
            o = int(m.group(1))
            if o in cur[2]:
                cur[2][o] += " " + cl
            else:
                cur[2][o] = cl
    return res


def splice(src_text, keys, only=None):
    """Return (spliced_text, n_insertions).  `only`: optional set of function
    names to restrict to (others in the key file are still checked for
    presence/loop count)."""
    if BEGIN in src_text or END in src_text:
        raise SpliceError("source already contains splice markers")
    code = _blank_noncode(src_text)
    inserts = []  # (offset, text)
    for fn, nexp, clauses in keys:
        loc = find_function(code, fn)
        if loc is None:
            raise SpliceError("function %s not found" % fn)
        loops = find_loops(code, loc[0], loc[1])
        if len(loops) != nexp:
            raise SpliceError(
                "function %s has %d loops, key file expects %d" % (fn, len(loops), nexp)
            )
        if only is not None and fn not in only:
            continue
        for o, cl in clauses.items():
            if not (1 <= o <= len(loops)):
                raise SpliceError("function %s: no loop %d" % (fn, o))
            inserts.append((loops[o - 1], BEGIN + " " + cl + " " + END))
    inserts.sort()
    out = []
    last = 0
    for off, txt in inserts:
        out.append(src_text[last:off])
        out.append(txt)
        last = off
    out.append(src_text[last:])
    res = "".join(out)
    if strip(res) != src_text:
        raise SpliceError("identity check failed: strip(splice(x)) != x")
    return res, len(inserts)


def main():
    import argparse

    ap = argparse.ArgumentParser()
    ap.add_argument("src")
    ap.add_argument("keys")
    ap.add_argument("out")
    ap.add_argument("--list", action="store_true", help="list loops per keyed function")
    a = ap.parse_args()
    text = open(a.src).read()
    keys = parse_keys(a.keys)
    if a.list:
        code = _blank_noncode(text)
        for fn, nexp, _ in keys:
            loc = find_function(code, fn)
            if not loc:
                print(fn, "NOT FOUND")
                continue
            for n, off in enumerate(find_loops(code, loc[0], loc[1]), 1):
                line = text.count("\n", 0, off) + 1
                print("%s loop %d line %d: %s" % (fn, n, line, text.splitlines()[line - 1].strip()[:90]))
        return 0
    try:
        res, n = splice(text, keys)
    except SpliceError as e:
        print("SPLICE-BREAK:", e, file=sys.stderr)
        return 2
    open(a.out, "w").write(res)
    print("inserted", n)
    return 0


if __name__ == "__main__":
    sys.exit(main())
