#!/usr/bin/env python3
"""driver.py - run CBMC contract proof units against /repo and decide properties.

Usage:  driver.py check <PROPERTY-ID> [--tier quick|thorough] [--keep] [--unit NAME]...
        driver.py unit  <UNIT-NAME>... [--keep] [--trace]          (development)
        driver.py list

Exit codes of `check`: 0 every unit PROVED (or only listed known findings),
1 some obligation REFUTED that no known-findings line covers (prints
`VIOLATION property=<id> replay=<path>`), 2 UNDECIDED only (timeout, tool
error, extraction break) - never a VIOLATION line.
"""
import sys, os, re, json, time, hashlib, subprocess, shutil, argparse, tempfile, signal
from concurrent.futures import ThreadPoolExecutor

VERIF = os.path.dirname(os.path.dirname(os.path.abspath(__file__)))
REPO = os.environ.get("VERIF_REPO", "/repo")
sys.path.insert(0, os.path.join(VERIF, "tools"))
sys.path.insert(0, VERIF)
import splice as splicer  # noqa

GUARD = "XIPH_VORBIS_VERIF"
BASE_CHECKS = [
    "--bounds-check", "--pointer-check", "--pointer-primitive-check",
    "--signed-overflow-check", "--div-by-zero-check", "--undefined-shift-check",
    "--pointer-overflow-check",
]
MEM_KB = 14000000  # ulimit -v per cbmc process
NCPU = int(os.environ.get("VERIF_JOBS", str(os.cpu_count() or 8)))


class Unit:
    def __init__(self, name, props, src, enforce=None, replace=(), harness=None,
                 entry=None, loops=None, kind="P", tier="quick", timeout=300,
                 unwind=None, unwindset=(), flags=(), defines=(), leak=False,
                 reach=0, note="", bound="", assumed=(), solver=None, extra_src=(),
                 nochecks=False, rec=False, objbits=10, shards=1, late_unwind=None, resplit=0, drop=(), unwind_cut=(), no_overflow=False, smt_props=None, only_props=None, runner=None, no_slice=False):
        self.name = name
        # props: {property_id: regex over obligation names that count for it}
        self.props = props if isinstance(props, dict) else {p: ".*" for p in props}
        self.src = src              # repo-relative file that holds the function
        self.enforce = enforce      # function whose contract is enforced (None: lemma harness)
        self.replace = list(replace)
        self.harness = harness or ("h_%s.c" % name)
        self.entry = entry or ("h_%s" % name)
        self.loops = loops          # key file under /verif/loops or None
        self.kind = kind            # P proof, B bounded stand-in, L lemma over contracts
        self.tier = tier
        self.timeout = timeout
        self.unwind = unwind
        self.unwindset = list(unwindset)
        self.flags = list(flags)
        self.defines = list(defines)
        self.leak = leak
        self.reach = reach          # number of VREACH must-fail assertions expected
        self.note = note
        self.bound = bound          # stated bound for kind B
        self.assumed = list(assumed)
        self.solver = solver
        self.extra_src = list(extra_src)
        self.nochecks = nochecks
        self.rec = rec
        self.objbits = objbits
        self.shards = shards
        self.late_unwind = late_unwind
        self.resplit = resplit
        self.drop = list(drop)
        self.unwind_cut = list(unwind_cut)
        self.no_overflow = no_overflow
        self.no_slice = no_slice    # skip --slice-global-inits (units whose SMT back end is sensitive to formula shape)
        self.runner = runner        # python module under tools/ with run(u, scratch, REPO, VERIF) (static facts)
        self.only_props = only_props  # regex: decide only these obligations (quick-tier subset of a thorough unit)
        self.smt_props = smt_props   # regex: these obligations go to z3 with the FP theory, the rest to SAT


def load_units():
    import importlib
    units = {}
    udir = os.path.join(VERIF, "units")
    for fn in sorted(os.listdir(udir)):
        if fn.endswith(".py") and not fn.startswith("_"):
            mod = importlib.import_module("units." + fn[:-3])
            for u in mod.UNITS:
                if u.name in units:
                    raise SystemExit("duplicate unit " + u.name)
                units[u.name] = u
    # a unit file may attach further properties to units defined elsewhere
    # (e.g. C18 counts the assigns-clause obligations of the block-layer units)
    for fn in sorted(os.listdir(udir)):
        if fn.endswith(".py") and not fn.startswith("_"):
            mod = importlib.import_module("units." + fn[:-3])
            for name, extra in getattr(mod, "EXTRA_PROPS", {}).items():
                if name in units:
                    units[name].props.update(extra)
    return units


def sha256(path):
    h = hashlib.sha256()
    with open(path, "rb") as f:
        h.update(f.read())
    return h.hexdigest()


import threading
_SEM = threading.BoundedSemaphore(NCPU)


def run(cmd, timeout, log, mem_kb=MEM_KB):
    """run cmd (list) with ulimit -v and timeout; return (rc, stdout, stderr, secs, timed_out)"""
    with _SEM:
        return _run(cmd, timeout, log, mem_kb)


def _run(cmd, timeout, log, mem_kb=MEM_KB):
    t0 = time.time()

    def pre():
        import resource
        os.setsid()
        resource.setrlimit(resource.RLIMIT_AS, (mem_kb * 1024, mem_kb * 1024))

    p = subprocess.Popen(cmd, stdout=subprocess.PIPE, stderr=subprocess.PIPE, preexec_fn=pre)
    try:
        out, err = p.communicate(timeout=timeout)
        to = False
    except subprocess.TimeoutExpired:
        try:
            os.killpg(p.pid, signal.SIGKILL)
        except Exception:
            pass
        out, err = p.communicate()
        to = True
    dt = time.time() - t0
    with open(log, "ab") as f:
        f.write(("\n$ " + " ".join(cmd) + "\n").encode())
        f.write(err[-20000:])
    return p.returncode, out.decode(errors="replace"), err.decode(errors="replace"), dt, to


RES_RE = re.compile(r"^\[([^\]]+)\] (?:file (\S+) )?(?:line (\d+) )?(.*): (SUCCESS|FAILURE|UNKNOWN|ERROR)$")
LOC_RE = re.compile(r"^(\S.*?) function (\S+)$")


def parse_cbmc_text(text):
    """Parse plain-text cbmc output -> (results list, messages list, status or None)."""
    results, msgs, status = [], [], None
    in_res = False
    cur_file, cur_fn = "", ""
    for line in text.splitlines():
        if line.startswith("** Results:"):
            in_res = True
            continue
        if line.startswith("VERIFICATION SUCCESSFUL"):
            status = "success"
        elif line.startswith("VERIFICATION FAILED"):
            status = "failure"
        elif line.startswith("VERIFICATION ERROR") or line.startswith("CONVERSION ERROR") or line.startswith("PARSING ERROR"):
            msgs.append(("ERROR", line))
        if in_res:
            m = RES_RE.match(line)
            if m:
                results.append({"property": m.group(1), "description": m.group(4), "status": m.group(5),
                                "sourceLocation": {"file": m.group(2) or cur_file, "function": cur_fn, "line": m.group(3) or ""}})
                continue
            m = LOC_RE.match(line)
            if m:
                cur_file, cur_fn = m.group(1), m.group(2)
                continue
        msgs.append(("", line))
    return results, msgs, status


_SPEC_LINES = {}


def is_reach_ensures(x):
    """A must-fail postcondition written REACH_ENSURES(cond) in a spec header
    (only compiled into the unit that enforces that very contract)."""
    if ".postcondition." not in x.get("property", ""):
        return False
    loc = x.get("sourceLocation", {})
    f, ln = loc.get("file", ""), loc.get("line", "")
    if not f.endswith(".spec.h") or not ln:
        return False
    if f not in _SPEC_LINES:
        try:
            _SPEC_LINES[f] = open(f).read().splitlines()
        except Exception:
            _SPEC_LINES[f] = []
    L = _SPEC_LINES[f]
    i = int(ln) - 1
    return 0 <= i < len(L) and "REACH_ENSURES(" in L[i]


def run_unit(u, scratch, want_trace=True):
    """Returns a dict describing the outcome of one proof unit."""
    r = {
        "unit": u.name, "kind": u.kind, "function": u.enforce, "file": u.src,
        "verdict": "UNDECIDED", "reason": "", "obligations": 0, "discharged": 0,
        "failed": [], "reach_expected": u.reach, "reach_hit": 0, "solver_s": 0.0,
        "wall_s": 0.0, "backend": u.solver or "minisat2 (cbmc default SAT)",
        "replaced": u.replace, "bound": u.bound, "unwind": u.unwind,
        "spliced_loops": 0, "note": u.note, "assumed": u.assumed, "samples": [],
    }
    t0 = time.time()
    if u.runner:
        import importlib
        return importlib.import_module(u.runner).run(u, scratch, REPO, VERIF)
    d = os.path.join(scratch, u.name)
    os.makedirs(d, exist_ok=True)
    log = os.path.join(d, "log.txt")
    src_path = os.path.join(REPO, u.src)
    if not os.path.exists(src_path):
        r["reason"] = "extraction break: %s missing" % u.src
        return r
    r["file_sha256"] = sha256(src_path)
    inc_src = src_path
    if u.loops:
        try:
            keys = splicer.parse_keys(os.path.join(VERIF, "loops", u.loops))
            text = open(src_path).read()
            res, n = splicer.splice(text, keys)
        except splicer.SpliceError as e:
            r["reason"] = "extraction break (splice): %s" % e
            return r
        inc_src = os.path.join(d, os.path.basename(u.src))
        with open(inc_src, "w") as f:
            f.write(res)
        # independent identity check: strip + byte compare
        if splicer.strip(open(inc_src).read()).encode() != open(src_path, "rb").read():
            r["reason"] = "extraction break: splice identity check failed"
            return r
        r["spliced_loops"] = n
        # a loop_invariant_step obligation is expected only if the function under
        # contract itself carries spliced loops (other functions of the file are dropped)
        r["expect_loopstep"] = (u.enforce is None) or any(k[0] == u.enforce and k[2] for k in keys)
    gb = os.path.join(d, "u.gb")
    gbi = os.path.join(d, "u.i.gb")
    # further /repo files needed by the unit are separate translation units:
    # a generated two-line wrapper (common.h for the alloca budget + the file)
    extra_tus = []
    for x in u.extra_src:
        xp = os.path.join(REPO, x)
        if not os.path.exists(xp):
            r["reason"] = "extraction break: %s missing" % x
            return r
        w = os.path.join(d, "x_" + os.path.basename(x))
        with open(w, "w") as f:
            f.write('#include "common.h"\n#include "%s"\n' % xp)
        extra_tus.append(w)
    defs = ["-D" + GUARD, '-DVERIF_SRC="%s"' % inc_src, '-DVERIF_REPO_LIB="%s/lib"' % REPO]
    defs += ["-D" + x for x in u.defines]
    if u.enforce:
        defs.append("-DVERIF_ENFORCE_" + u.enforce)
    cmd = ["goto-cc", "-I" + os.path.join(REPO, "include"), "-I" + os.path.join(REPO, "lib"),
           "-I" + os.path.join(VERIF, "contracts"), "-I" + os.path.join(VERIF, "harness")] + defs + \
          ["--function", u.entry, os.path.join(VERIF, "harness", u.harness)] + extra_tus + ["-o", gb]
    rc, out, err, dt, to = run(cmd, 300, log)
    if rc != 0 or to:
        r["reason"] = "compile error (goto-cc): " + (err.strip().splitlines()[-1] if err.strip() else "timeout")
        r["detail"] = err[-3000:]
        return r
    # Loops that carry no loop contract are unwound BEFORE the contract
    # instrumentation (DFCC sizes its write sets statically and cannot see
    # through a loop); --unwinding-assertions turns an insufficient bound
    # into a failed obligation, so a passing unit is complete for those loops.
    if u.drop:
        # bodies of functions that are irrelevant to the unit and that trip
        # goto-instrument (e.g. the stdio callback tables of ov_open) are removed
        gbd = os.path.join(d, "u.d.gb")
        cmd = ["goto-instrument"]
        for f in u.drop:
            cmd += ["--remove-function-body", f]
        cmd += [gb, gbd]
        rc, out, err, dt, to = run(cmd, 600, log)
        if rc != 0 or to:
            r["reason"] = "goto-instrument --remove-function-body failed"
            r["detail"] = (out + err)[-3000:]
            return r
        gb = gbd
    if u.unwind_cut:
        # BOUNDED ONLY: these loops are cut after N iterations WITHOUT an
        # unwinding assertion (paths that iterate further are not explored);
        # only allowed in kind "B" units, the bound is stated in u.bound
        gbc = os.path.join(d, "u.c.gb")
        cmd = ["goto-instrument", "--unwindset", ",".join(u.unwind_cut), gb, gbc]
        rc, out, err, dt, to = run(cmd, 600, log)
        if rc != 0 or to or u.kind != "B":
            r["reason"] = "goto-instrument --unwindset (cut) failed or unit not labelled B"
            r["detail"] = (out + err)[-3000:]
            return r
        gb = gbc
    if u.unwind is not None or u.unwindset:
        gbu = os.path.join(d, "u.u.gb")
        cmd = ["goto-instrument"]
        if u.unwindset:
            cmd += ["--unwindset", ",".join(u.unwindset)]
        if u.unwind is not None:
            cmd += ["--unwind", str(u.unwind)]
        cmd += ["--unwinding-assertions", gb, gbu]
        rc, out, err, dt, to = run(cmd, 600, log)
        if rc != 0 or to:
            r["reason"] = "goto-instrument --unwind failed: " + (err.strip().splitlines()[-1] if err.strip() else "timeout")
            r["detail"] = (out + err)[-3000:]
            return r
        gb = gbu
    plain = (not u.enforce and not u.replace and not u.loops)
    cmd = ["goto-instrument", "--no-malloc-may-fail", "--dfcc", u.entry]
    if plain:
        # harness-only unit (no contract involved): no DFCC instrumentation
        cmd = ["goto-instrument", "--no-malloc-may-fail"]
    if u.enforce:
        cmd += ["--enforce-contract-rec" if u.rec else "--enforce-contract", u.enforce]
    for g in u.replace:
        cmd += ["--replace-call-with-contract", g]
    if u.loops:
        cmd += ["--apply-loop-contracts"]
    cmd += [gb, gbi]
    rc, out, err, dt, to = run(cmd, 900, log)
    # a callee that the (changed) code no longer calls cannot be replaced: drop it from
    # the list and retry, instead of reporting a tool error
    for _retry in range(8):
        mm = re.search(r"Function to replace '(\w+)' not found", out + err)
        if not (rc != 0 and mm and mm.group(1) in cmd):
            break
        k = cmd.index(mm.group(1))
        del cmd[k - 1:k + 1]
        r.setdefault("replace_dropped", []).append(mm.group(1))
        rc, out, err, dt, to = run(cmd, 900, log)
    if rc != 0 or to:
        r["reason"] = "goto-instrument failed: " + (err.strip().splitlines()[-1] if err.strip() else "timeout")
        r["detail"] = (out + err)[-3000:]
        return r
    r["instrument_s"] = round(dt, 2)
    # obligations of functions that the harness cannot reach are not obligations
    # of this unit: remove those functions so that they are neither generated
    # nor counted
    gbf = os.path.join(d, "u.f.gb")
    rc, out, err, dt, to = run(["goto-instrument", "--drop-unused-functions", gbi, gbf], 600, log)
    if rc == 0 and not to and os.path.exists(gbf):
        gbi = gbf
    # initialisers of static objects that the unit never reads (vorbisenc.c alone
    # carries megabytes of static tables) are sliced away: pure formula-size reduction
    gbs = os.path.join(d, "u.s.gb")
    if not u.no_slice:
        rc, out, err, dt, to = run(["goto-instrument", "--slice-global-inits", gbi, gbs], 600, log)
        if rc == 0 and not to and os.path.exists(gbs):
            gbi = gbs
    flags = [] if u.nochecks else list(BASE_CHECKS)
    if u.no_overflow:
        flags = [f for f in flags if f not in ("--signed-overflow-check", "--pointer-overflow-check")]
        flags.append("--no-signed-overflow-check")  # CBMC 6 turns the standard checks on by default
    if u.leak:
        flags.append("--memory-leak-check")
    if u.late_unwind is not None:
        flags += ["--unwind", str(u.late_unwind), "--unwinding-assertions"]
    flags += ["--object-bits", str(u.objbits), "--no-malloc-may-fail"]
    flags += u.flags
    if u.solver:
        flags.append(u.solver)
    cbmc = ["cbmc", gbi] + flags + ["--verbosity", "8"]
    r["checker_cmd"] = " ".join(["goto-cc … --function", u.entry, "&& goto-instrument --dfcc", u.entry] +
                                (["--enforce-contract", u.enforce] if u.enforce else []) +
                                ["--replace-call-with-contract " + g for g in u.replace] +
                                (["--apply-loop-contracts"] if u.loops else []) + ["&& cbmc"] + flags)
    if u.shards > 1 or u.smt_props or u.only_props:
        rc, out, err, dt, to = run_sharded(u, cbmc, flags, gbi, d, log)
    else:
        rc, out, err, dt, to = run(cbmc, u.timeout, log)
    while u.shards <= 1 and not u.smt_props and not u.only_props and (not to) and "too many addressed objects" in (out + err) and u.objbits < 14:
        # the object-id width is a pure capacity parameter: escalate and retry
        i = cbmc.index("--object-bits")
        u.objbits += 1
        cbmc[i + 1] = str(u.objbits)
        flags[flags.index("--object-bits") + 1] = str(u.objbits)
        rc, out, err, dt, to = run(cbmc, u.timeout, log)
    r["object_bits"] = u.objbits
    r["cbmc_s"] = round(dt, 2)
    with open(os.path.join(d, "cbmc.out"), "w") as f:
        f.write(out)
    if to:
        r["reason"] = "timeout after %ds" % u.timeout
        r["wall_s"] = round(time.time() - t0, 2)
        return r
    results, msgs, status = parse_cbmc_text(out)
    for t, m in msgs:
        if m.startswith("SHARD-ERROR"):
            r["detail"] = m
    if results is None or status is None or (not results and status != "success"):
        errs = [m for t, m in msgs if t == "ERROR"]
        r["reason"] = "tool error: " + (errs[-1] if errs else ("rc=%d" % rc))
        r["detail"] = (err[-2000:] + "\n".join(m for _, m in msgs[-15:]))
        if "out of memory" in (out + err).lower() or rc in (-6, -9, 134, 137):
            r["reason"] = "memory limit / abort (rc=%d)" % rc
        r["wall_s"] = round(time.time() - t0, 2)
        return r
    for t, m in msgs:
        mm = re.search(r"Runtime decision procedure: ([0-9.]+)s", m)
        if mm:
            r["solver_s"] += float(mm.group(1))
        if "ignoring" in m and ("forall" in m or "exists" in m or "quantif" in m):
            r["reason"] = "vacuity guard: solver ignored a quantifier: " + m
    r["solver_s"] = round(r["solver_s"], 2)
    nob, ndis, failed, reach_hit, loopstep = 0, 0, [], 0, 0
    for x in results:
        name = x.get("property", "?")
        desc = x.get("description", "")
        st = x.get("status", "")
        if u.unwind_cut and any(re.search(r"unwinding assertion loop %s$" % c.split(":")[0].rsplit(".", 1)[1], desc) and
                                x.get("sourceLocation", {}).get("function", "") == c.split(":")[0].rsplit(".", 1)[0]
                                for c in u.unwind_cut):
            continue  # a deliberately cut loop of a bounded (B) unit: not an obligation
        if desc.startswith("VREACH") or is_reach_ensures(x):
            if st == "FAILURE":
                reach_hit += 1
            continue
        nob += 1
        if "loop_invariant_step" in name or "loop invariant is preserved" in desc:
            loopstep += 1
        if st == "SUCCESS":
            ndis += 1
        else:
            loc = x.get("sourceLocation", {})
            failed.append({"obligation": name, "description": desc, "status": st,
                           "file": loc.get("file", ""), "line": loc.get("line", ""),
                           "function": loc.get("function", "")})
    r["obligations"], r["discharged"], r["failed"] = nob, ndis, failed
    r["reach_hit"] = reach_hit
    r["loop_step_obligations"] = loopstep
    r["samples"] = [{"obligation": x.get("property"), "description": x.get("description", "")[:100],
                     "status": x.get("status")} for x in results[:3]]
    unknown = [fo for fo in failed if fo["status"] != "FAILURE"]
    if unknown:
        failed = [fo for fo in failed if fo["status"] == "FAILURE"]
        r["failed"] = failed
        r["undecided_obligations"] = [fo["obligation"] for fo in unknown]
    if r["reason"].startswith("vacuity guard"):
        pass
    elif unknown and not failed:
        r["reason"] = "%d obligation(s) undecided (timeout): %s" % (len(unknown), " ".join(fo["obligation"] for fo in unknown[:8]) + (" ..." if len(unknown) > 8 else ""))
    elif nob == 0:
        r["reason"] = "vacuity guard: zero obligations"
    elif not failed and reach_hit < u.reach:
        # (a refuted obligation is a counterexample in its own right; the reachability
        # guard protects PASSING units against vacuity)
        r["reason"] = "vacuity guard: only %d of %d reachability points satisfiable" % (reach_hit, u.reach)
    elif u.loops and r["spliced_loops"] and r.get("expect_loopstep", True) and loopstep == 0:
        r["reason"] = "vacuity guard: loop contracts spliced but no loop_invariant_step obligation"
    elif failed:
        r["verdict"] = "REFUTED"
        r["reason"] = "%d obligation(s) failed" % len(failed)
        if want_trace:
            # second run for a trace of the first few failing obligations
            tr = []
            for fo in failed[:3]:
                rc, out2, err2, dt, to = run(["cbmc", gbi] + flags + ["--property", fo["obligation"], "--trace",
                                             "--trace-show-code", "--stop-on-fail"], min(u.timeout, 600), log)
                tr.append("### obligation %s (%s)\n%s" % (fo["obligation"], fo["description"], out2[-60000:]))
            r["trace_text"] = "\n\n".join(tr)
    else:
        r["verdict"] = "PROVED"
    r["wall_s"] = round(time.time() - t0, 2)
    return r


def run_sharded(u, cbmc, flags, gbi, d, log):
    """Split the unit's obligations round-robin over u.shards cbmc processes
    (same program, same flags, disjoint --property sets) and merge the
    results.  Every obligation is still decided exactly once."""
    t0 = time.time()
    while True:
        rc, out, err, dt, to = run(["cbmc", gbi] + flags + ["--show-properties"], 300, log)
        if "too many addressed objects" in (out + err) and u.objbits < 14:
            u.objbits += 1
            flags[flags.index("--object-bits") + 1] = str(u.objbits)
            continue
        break
    names = re.findall(r"^Property ([^\s:]+):", out, re.M)
    if not names:
        return rc, out, err, dt, to
    if u.only_props:
        rxo = re.compile(u.only_props)
        names = [n for n in names if rxo.search(n)]
    smt_names = []
    if u.smt_props:
        rx = re.compile(u.smt_props)
        smt_names = [n for n in names if rx.search(n)]
        names = [n for n in names if not rx.search(n)]
    nsh = max(1, u.shards)
    # the obligation names travel on the command line: keep each shard's share well below ARG_MAX
    nsh = max(nsh, (sum(len(n) + 12 for n in names) // 60000) + 1)
    groups = [names[i::nsh] for i in range(nsh)]
    groups = [g for g in groups if g]
    smt_groups = [[n] for n in smt_names]
    groups += smt_groups

    def one(g):
        c = ["cbmc", gbi] + flags + ["--verbosity", "8"]
        if g in smt_groups:
            # word-level back end: identical float terms of code and specification
            # are shared instead of bit-blasted twice
            c = [x for x in c if x not in ("--sat-solver", "cadical")] + ["--z3", "--fpa"]
        for n in g:
            c += ["--property", n]
        r = run(c, u.timeout, log)
        while "too many addressed objects" in (r[1] + r[2]) and u.objbits < 14:
            u.objbits += 1
            flags[flags.index("--object-bits") + 1] = str(u.objbits)
            c[c.index("--object-bits") + 1] = str(u.objbits)
            r = run(c, u.timeout, log)
        if "too many addressed objects" in (r[1] + r[2]):
            return (r[0], "VERIFICATION ERROR object-bits", r[2], r[3], False)
        return r
    with ThreadPoolExecutor(max_workers=min(len(groups), 16)) as ex:
        rs = list(ex.map(one, groups))
    # shards that ran out of time are re-split (up to u.resplit rounds) so
    # that a few slow obligations do not hide the others
    for _round in range(u.resplit):
        slow = [g for r, g in zip(rs, groups) if r[4]]
        if not slow:
            break
        keep = [(r, g) for r, g in zip(rs, groups) if not r[4]]
        names2 = [n for g in slow for n in g]
        if len(names2) <= len(slow):
            break
        k = min(16, len(names2))
        g2 = [names2[i::k] for i in range(k)]
        with ThreadPoolExecutor(max_workers=k) as ex:
            r2 = list(ex.map(one, g2))
        rs = [x[0] for x in keep] + r2
        groups = [x[1] for x in keep] + g2
        smt_groups[:] = [g for g in groups if len(g) == 1 and g[0] in smt_names]
    to = False
    merged, status, seen = [], "success", False
    for r in rs:
        txt = r[1]
        i = txt.find("** Results:")
        head = txt[:i] if i >= 0 else txt
        merged.append(head)
    merged.append("** Results:")
    for r, g in zip(rs, groups):
        txt = r[1]
        i = txt.find("** Results:")
        if r[4] or i < 0:
            # shard did not finish: its obligations are undecided (UNKNOWN)
            merged.append("\nshard function undecided\n" + "\n".join("[%s] %s: UNKNOWN" % (n, "timeout" if r[4] else "error") for n in g))
            if not r[4]:
                with open(log, "a") as lf:
                    lf.write("\nSHARD ERROR rc=%s\n%s\n%s\n" % (r[0], txt[-1500:], r[2][-1500:]))
                merged.insert(0, "SHARD-ERROR rc=%s: %s" % (r[0], (txt[-300:] + r[2][-300:]).replace("\n", " | ")))
            seen = True
            continue
        if i >= 0:
            body = txt[i + len("** Results:"):]
            body = re.sub(r"\n\*\* \d+ of \d+ failed.*", "", body, flags=re.S)
            merged.append(body)
        if "VERIFICATION FAILED" in txt:
            status = "failure"
        elif "VERIFICATION SUCCESSFUL" not in txt:
            status = None if status != "failure" else status
            seen = True
    tail = "VERIFICATION FAILED" if status == "failure" else "VERIFICATION SUCCESSFUL"
    return (0, "\n".join(merged) + "\n" + tail + "\n", "", time.time() - t0, to)


# ---------------------------------------------------------------- findings

def load_findings():
    path = os.path.join(VERIF, "known_findings.txt")
    known = []
    if os.path.exists(path):
        for line in open(path):
            s = line.strip()
            if s.startswith("known:"):
                kv = dict(re.findall(r"(\w+)=(\S+)", s))
                kv["text"] = s
                known.append(kv)
    return known


def match_finding(known, prop, unit, fo):
    for k in known:
        if k.get("property") != prop or k.get("unit") != unit:
            continue
        if "obligation" in k and not re.fullmatch(k["obligation"], fo["obligation"]):
            continue
        if "site" in k and k["site"] not in ("%s:%s" % (os.path.basename(fo["file"]), fo["function"]), fo["function"]):
            continue
        return k
    return None


# ---------------------------------------------------------------- check

def do_check(prop, tier, units, keep=False, only=None):
    t0 = time.time()
    sel = [u for u in units.values() if prop in u.props and (tier == "thorough" or u.tier == "quick")]
    if only:
        sel = [u for u in sel if u.name in only]
    if not sel:
        print("no units for property", prop)
        return 2
    scratch = tempfile.mkdtemp(prefix="verif.", dir="/var/tmp")
    try:
        with ThreadPoolExecutor(max_workers=NCPU) as ex:
            res = list(ex.map(lambda u: run_unit(u, scratch), sel))
        known = load_findings()
        rpdir = os.path.join(VERIF, "replay") if "VERIF_EVIDENCE_DIR" not in os.environ else os.path.join(os.environ["VERIF_EVIDENCE_DIR"], "replay")
        os.makedirs(rpdir, exist_ok=True)
        violations, undecided, kf_lines = [], [], []
        nob = ndis = nbounded = nbounded_dis = 0
        unit_rows = []
        for u, r in zip(sel, res):
            rx = re.compile(u.props[prop])
            failed_here = [fo for fo in r["failed"] if rx.search(fo["obligation"]) or rx.search(fo["description"])]
            row = {k: r.get(k) for k in ("unit", "kind", "function", "file", "verdict", "reason", "obligations",
                                         "discharged", "reach_expected", "reach_hit", "solver_s", "wall_s", "backend",
                                         "replaced", "bound", "unwind", "spliced_loops", "loop_step_obligations",
                                         "file_sha256", "note", "checker_cmd")}
            unit_rows.append(row)
            if r["verdict"] == "UNDECIDED":
                undecided.append(r)
                print("UNDECIDED unit=%s %s" % (u.name, r["reason"]))
                if r.get("detail"):
                    print("   " + r["detail"].strip().replace("\n", "\n   ")[-1500:])
                continue
            known_here = 0
            unknown = []
            for fo in failed_here:
                k = match_finding(known, prop, u.name, fo)
                if k:
                    known_here += 1
                    kf_lines.append("KNOWN-FINDING: property=%s unit=%s obligation=%s %s" % (
                        prop, u.name, fo["obligation"], k["text"].split(" ", 1)[1]))
                else:
                    unknown.append(fo)
            if u.kind == "B":
                nbounded += r["obligations"]
                nbounded_dis += r["discharged"]
            else:
                nob += r["obligations"] - known_here
                ndis += r["discharged"]
                # failures of this unit that belong to other properties are not
                # counted as undischarged for this property
                other = len(r["failed"]) - len(failed_here)
                nob -= other
            if unknown:
                rp = os.path.join(rpdir, "%s.%s.txt" % (prop, u.name))
                found = write_replay(rp, prop, u, r, unknown)
                violations.append((u, rp, unknown, found))
        wall = time.time() - t0
        for l in sorted(set(kf_lines)):
            print(l)
        for u, rp, unknown, found in violations:
            for fo in unknown[:5]:
                print("  failed obligation: unit=%s %s  %s  (%s:%s)" % (u.name, fo["obligation"], fo["description"],
                                                                      os.path.basename(fo["file"]), fo["line"]))
            print("VIOLATION property=%s replay=%s%s" % (prop, rp, "" if found else " no-failing-input-found"))
        write_evidence(prop, tier, sel, unit_rows, nob, ndis, nbounded, nbounded_dis, wall, len(violations),
                       undecided, kf_lines)
        npro = sum(1 for r in res if r["verdict"] == "PROVED")
        print("property=%s tier=%s units=%d proved=%d refuted=%d undecided=%d obligations=%d discharged=%d bounded=%d wall=%.1fs" % (
            prop, tier, len(sel), npro, sum(1 for r in res if r["verdict"] == "REFUTED"), len(undecided), nob, ndis,
            nbounded, wall))
        if violations:
            return 1
        if undecided:
            return 2
        return 0
    finally:
        if keep:
            print("scratch kept:", scratch)
        else:
            shutil.rmtree(scratch, ignore_errors=True)


def write_replay(path, prop, u, r, failed):
    """Write the replay file.  Returns True iff a native failing input was
    reproduced against the real code."""
    found = False
    native = ""
    try:
        import replay as rep
        found, native = rep.try_native(prop, u, r, failed, REPO, VERIF)
    except Exception as e:  # replay generator problems never mask the violation
        native = "native replay not available: %r" % (e,)
    with open(path, "w") as f:
        f.write("property: %s\nunit: %s\nfunction under contract: %s (%s)\n" % (prop, u.name, u.enforce, u.src))
        f.write("repo: %s\n" % REPO)
        f.write("failed obligations:\n")
        for fo in failed:
            f.write("  - %s : %s  [%s:%s in %s] status=%s\n" % (fo["obligation"], fo["description"], fo["file"], fo["line"],
                                                               fo["function"], fo["status"]))
        f.write("\nnative replay: %s\n%s\n" % ("FAILING INPUT REPRODUCED" if found else "no-failing-input-found", native))
        f.write("\nverifier command: %s\n" % r.get("checker_cmd", ""))
        f.write("\n--- verifier output (counterexample traces) ---\n")
        f.write(r.get("trace_text", "(no trace)"))
    return found


TRUSTED = [
    "CBMC 6.11.0 (goto-cc, goto-instrument --dfcc contract instrumentation, cbmc with MiniSat2 unless a unit names another back end)",
    "assumed contracts for binary-only libogg (oggpack_*, ogg_sync_*, ogg_stream_*, ogg_page_*): contracts/assumed/ogg.spec.h",
    "libc: malloc/calloc/realloc never fail; CBMC built-in models of memset/memcpy/memmove/strlen/strcpy/strcat, floor/rint/fabs/abs/labs",
    "transcendental math (cos,sin,atan,log,exp,pow,sqrt,ldexp) is unconstrained in CBMC: nothing depending on their values is claimed",
    "machine arithmetic is bit-precise LP64 / IEEE-754 as on x86-64 (not mathematical integers)",
    "tools/splice.py inserts loop-contract clauses only; strip(spliced)==/repo file is byte-compared on every run",
    "the contracts say what the property says: reviewed by reading, not machine-checked",
]


def write_evidence(prop, tier, sel, rows, nob, ndis, nb, nbd, wall, nviol, undecided, kf_lines):
    evdir = os.environ.get("VERIF_EVIDENCE_DIR", os.path.join(VERIF, "evidence"))
    os.makedirs(evdir, exist_ok=True)
    assumptions = []
    try:
        import units.notes as notes
        assumptions += notes.ASSUMPTIONS.get(prop, [])
    except Exception:
        pass
    for u in sel:
        for a in u.assumed:
            s = "%s: %s" % (u.name, a)
            if s not in assumptions:
                assumptions.append(s)
        if u.kind == "B":
            assumptions.append("unit %s is a BOUNDED stand-in (%s); its obligations are not counted as discharged proofs" % (u.name, u.bound))
        if u.kind == "L":
            assumptions.append("unit %s is a lemma over contracts (harness code calling contract-abstracted functions only)" % u.name)
    samples = []
    for r in rows:
        samples.append({"unit": r["unit"], "function": r["function"], "kind": r["kind"], "verdict": r["verdict"],
                        "obligations": r["obligations"], "discharged": r["discharged"]})
    ev = {
        "property_id": prop, "tier": tier, "seed": int(os.environ.get("VERIF_SEED", "0") or 0),
        "level": "proof" if nob > 0 else "other",
        "coverage": {
            "explanation": ("contract proofs of the listed functions: every obligation generated by goto-instrument --dfcc and cbmc for "
                            "the unit is discharged for all inputs satisfying the contract's requires clause; units of kind B are bounded "
                            "stand-ins (bound stated per unit) and are counted only under bounded_obligations"
                            if nob > 0 else
                            "BOUNDED stand-in only: the real functions are checked against their contracts by CBMC with the loop bounds "
                            "stated per unit (kind B); nothing here is counted as an unbounded proof"),
            "obligations": nob, "discharged": ndis,
            "checker_cmd": "python3 tools/driver.py check %s --tier %s  (per unit: goto-cc -> goto-instrument --dfcc <entry> --enforce-contract f --replace-call-with-contract g.. [--apply-loop-contracts] -> cbmc <checks> --object-bits 12)" % (prop, tier),
            "trusted_base": TRUSTED,
            "bounded_obligations": nb, "bounded_discharged": nbd,
            "functions_under_contract": sorted(set(r["function"] for r in rows if r["function"])),
            "units": rows,
            "samples": samples[:40],
            "undecided_units": [r["unit"] for r in undecided],
            "known_findings": sorted(set(kf_lines)),
            "solver_s_total": round(sum(r["solver_s"] or 0 for r in rows), 2),
            "exhaustive": False,
        },
        "assumptions": assumptions,
        "wall_s": round(wall, 2),
        "violations": nviol,
    }
    with open(os.path.join(evdir, "%s.json" % prop), "w") as f:
        json.dump(ev, f, indent=1)


def main():
    ap = argparse.ArgumentParser()
    sub = ap.add_subparsers(dest="cmd")
    c = sub.add_parser("check")
    c.add_argument("prop")
    c.add_argument("--tier", default=os.environ.get("VERIF_TIER", "quick"))
    c.add_argument("--keep", action="store_true")
    c.add_argument("--unit", action="append")
    un = sub.add_parser("unit")
    un.add_argument("names", nargs="+")
    un.add_argument("--keep", action="store_true")
    un.add_argument("--trace", action="store_true")
    un.add_argument("--timeout", type=int)
    un.add_argument("--resplit", type=int)
    sub.add_parser("list")
    a = ap.parse_args()
    units = load_units()
    if a.cmd == "list":
        for u in units.values():
            print("%-40s %s %-8s %-9s %s" % (u.name, u.kind, u.tier, ",".join(u.props), u.enforce))
        return 0
    if a.cmd == "unit":
        scratch = tempfile.mkdtemp(prefix="verif.", dir="/var/tmp")
        rc = 0
        try:
            sel = []
            for n in a.names:
                m = [u for k, u in units.items() if re.fullmatch(n, k)]
                if not m:
                    raise SystemExit("no unit matches " + n)
                sel += m
            if a.timeout:
                for u in sel:
                    u.timeout = a.timeout
            if a.resplit is not None:
                for u in sel:
                    u.resplit = a.resplit
            with ThreadPoolExecutor(max_workers=NCPU) as ex:
                res = list(ex.map(lambda u: run_unit(u, scratch, want_trace=a.trace), sel))
            for r in res:
                print("%-36s %-9s obl=%d dis=%d reach=%d/%d loopstep=%s solver=%.1fs wall=%.1fs %s" % (
                    r["unit"], r["verdict"], r["obligations"], r["discharged"], r["reach_hit"], r["reach_expected"],
                    r.get("loop_step_obligations"), r["solver_s"], r["wall_s"], r["reason"]))
                for fo in r["failed"][:12]:
                    print("     FAILED %s: %s (%s:%s)" % (fo["obligation"], fo["description"], os.path.basename(fo["file"]), fo["line"]))
                if r.get("detail") and r["verdict"] == "UNDECIDED":
                    print(r["detail"][-2500:])
                if a.trace and r.get("trace_text"):
                    p = "/var/tmp/trace.%s.txt" % r["unit"]
                    open(p, "w").write(r["trace_text"])
                    print("     trace:", p)
                if r["verdict"] != "PROVED":
                    rc = 1
        finally:
            if a.keep:
                print("scratch kept:", scratch)
            else:
                shutil.rmtree(scratch, ignore_errors=True)
        return rc
    if a.cmd == "check":
        return do_check(a.prop, a.tier, units, keep=a.keep, only=a.unit)
    ap.print_help()
    return 2


if __name__ == "__main__":
    sys.exit(main())
