#!/bin/sh
# trymut.sh <patch.diff> <unit>...  - run proof units against a scratch copy of /repo with a change applied
# (development aid; /repo is never touched; the copy is removed afterwards)
p="$1"; shift
d=$(mktemp -d /var/tmp/mutrepo.XXXXXX)
cp -r /repo/lib /repo/include "$d"/
( cd "$d" && git init -q . && git add -A >/dev/null && git commit -qm base >/dev/null && git apply "$p" ) || { echo "patch does not apply"; rm -rf "$d"; exit 3; }
VERIF_REPO="$d" python3 "$(dirname "$0")/driver.py" unit "$@"
rc=$?
rm -rf "$d"
exit $rc
