#!/usr/bin/env python3
"""static_scan.py - supporting static fact for C18 (no shared mutable state).

Compiles every translation unit of libvorbis, libvorbisenc and libvorbisfile
with goto-cc (the same front end that the proof units use), links them, and
examines the GOTO symbol table:

  obligation per object with static storage duration defined in /repo:
    S1  it is const-qualified (for arrays: the element type), OR
    S2  no instruction of any function assigns to it (ASSIGN with the object as
        root of the left-hand side) and its address is never taken outside
        static initialisers.

A new static cache / scratch buffer / lazily-initialised table fails S1 and S2.
Returns the driver's unit-result dict."""
import os, re, json, subprocess, time

LIBSRC = ["analysis", "bitrate", "block", "codebook", "envelope", "floor0", "floor1", "info", "lookup", "lpc", "lsp",
          "mapping0", "mdct", "psy", "registry", "res0", "sharedbook", "smallft", "synthesis", "window", "vorbisenc", "vorbisfile"]


def is_const(t):
    ns = t.get("namedSub", {})
    if ns.get("#constant", {}).get("id") == "1":
        return True
    if t.get("id") == "array":
        return is_const(t["sub"][0])
    return False


def run(u, scratch, REPO, VERIF):
    t0 = time.time()
    r = {"unit": u.name, "kind": u.kind, "function": None, "file": "lib/*.c", "verdict": "UNDECIDED", "reason": "",
         "obligations": 0, "discharged": 0, "failed": [], "reach_expected": 0, "reach_hit": 0, "solver_s": 0.0, "wall_s": 0.0,
         "backend": "goto-cc + goto-instrument symbol table / goto program scan (no solver)", "replaced": [], "bound": "",
         "unwind": None, "spliced_loops": 0, "note": u.note, "assumed": u.assumed, "samples": []}
    d = os.path.join(scratch, u.name)
    os.makedirs(d, exist_ok=True)
    gbs = []
    for f in LIBSRC:
        src = os.path.join(REPO, "lib", f + ".c")
        if not os.path.exists(src):
            r["reason"] = "extraction break: %s missing" % src
            return r
        gb = os.path.join(d, f + ".gb")
        p = subprocess.run(["goto-cc", "-I" + os.path.join(REPO, "include"), "-I" + os.path.join(REPO, "lib"), "-c", src, "-o", gb],
                           capture_output=True)
        if p.returncode:
            r["reason"] = "compile error (goto-cc) in %s" % f
            r["detail"] = p.stderr.decode(errors="replace")[-2000:]
            return r
        gbs.append(gb)
    allgb = os.path.join(d, "all.gb")
    p = subprocess.run(["goto-cc"] + gbs + ["-o", allgb], capture_output=True)
    if p.returncode:
        r["reason"] = "link error (goto-cc)"
        r["detail"] = p.stderr.decode(errors="replace")[-2000:]
        return r
    p = subprocess.run(["goto-instrument", "--show-symbol-table", "--json-ui", allgb], capture_output=True)
    try:
        st = [x["symbolTable"] for x in json.loads(p.stdout.decode()) if "symbolTable" in x][0]
    except Exception as e:
        r["reason"] = "tool error: symbol table not readable (%r)" % (e,)
        return r
    p = subprocess.run(["goto-instrument", "--show-goto-functions", allgb], capture_output=True)
    gf = p.stdout.decode(errors="replace")
    assigns = re.findall(r"^\s*ASSIGN (.*?) := ", gf, re.M)
    nob = ndis = 0
    nonconst = []
    for name, s in st.items():
        if not s.get("isStaticLifetime") or s.get("isType") or s.get("type", {}).get("id") == "code":
            continue
        f = s.get("location", {}).get("file", "")
        if not f.startswith(REPO.rstrip("/") + "/"):
            continue
        nob += 1
        if is_const(s["type"]):
            ndis += 1
            continue
        # S2: never assigned, address never taken
        rx = re.compile(r"(?<![\w:$])" + re.escape(name) + r"(?![\w:$])")
        written = [a for a in assigns if rx.match(a.lstrip("*(").lstrip())]
        addr = re.findall(r"address_of\(" + re.escape(name) + r"[\)\[]|&" + re.escape(name) + r"(?![\w:$])", gf)
        nonconst.append(name)
        if not written and not addr:
            ndis += 1
        else:
            r["failed"].append({"obligation": "static_scan.mutable_static." + re.sub(r"\W+", "_", name),
                                "description": "object with static storage duration '%s' (%s, %s:%s) is not const and is %s" % (
                                    name, s.get("prettyType"), os.path.basename(f), s.get("location", {}).get("line", "?"),
                                    "assigned by a function" if written else "address-taken"),
                                "status": "FAILURE", "file": f, "line": s.get("location", {}).get("line", ""), "function": ""})
    r["obligations"], r["discharged"] = nob, ndis
    r["samples"] = [{"obligation": "static_scan.nonconst_but_readonly", "description": ", ".join(sorted(nonconst))[:300], "status": "SUCCESS"}]
    r["checker_cmd"] = "goto-cc -c lib/*.c (22 TUs) && goto-cc link && goto-instrument --show-symbol-table/--show-goto-functions; tools/static_scan.py"
    if nob == 0:
        r["reason"] = "vacuity guard: no static objects found"
    elif r["failed"]:
        r["verdict"] = "REFUTED"
        r["reason"] = "%d static object(s) mutable" % len(r["failed"])
        r["trace_text"] = "\n".join(fo["description"] for fo in r["failed"])
    else:
        r["verdict"] = "PROVED"
    r["wall_s"] = round(time.time() - t0, 2)
    return r
