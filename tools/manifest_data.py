HOOK_COMMITS = []   # no verification hooks in /repo; 'fix:' commits are listed in known_findings.txt
PENDING = "no check built yet in this session (see DESIGN.md section 6 for the planned contracts); listed here until its units exist, not because the technique cannot apply"
CLAIMS = {
 "C02": {"text": "Function-by-function contract proofs of the header unpackers against the decoder's setup invariant; CBMC-generated safety obligations (bounds, pointers, overflow, division, shifts, leaks) hold for all inputs of each function under contract.",
         "note": "assumed contracts for binary-only libogg; malloc never fails; functions not yet under contract are listed in evidence.assumptions"},
 "C16": {"text": "Case folding proved for all ints, tagcompare for all lengths (loop contract, ghost index); query/query_count against an independent specification function on bounded comment lists (B).",
         "note": "string-handling units are bounded (<=3 comments x <=4 chars); libc string models of CBMC"},
 "C17": {"category": "other", "text": "ov_read_filter under contract, case-split over (word, signed, byte order): parameter errors, frame count, position advance, untouched bytes and the value of every output byte (ghost channel/frame) for symbolic floats; bounded in channels/frames (B).",
         "note": "cvtsd2si model assumed (Intel SDM); <=2 channels, <=2 frames per packet; callee contracts for pcmout/read/fetch assumed"},
}
NOT_APPLICABLE = {
 "C06": "bounds the reconstruction error of a lossy floating-point pipeline built on cos/log/exp/sqrt, which CBMC leaves unconstrained; no contract within reach expresses it (DESIGN.md section 8)",
 "C10": "2-safety relation between whole-library executions that differ in the read callback's short-read schedule and access path, through binary-only libogg; no single-call contract states it (DESIGN.md section 8)",
}
for p in ["C01","C03","C04","C05","C07","C08","C09","C11","C12","C13","C14","C15","C18","C19","C20"]:
    NOT_APPLICABLE[p] = PENDING
