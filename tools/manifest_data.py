HOOK_COMMITS = []   # no verification hooks in /repo; 'fix:' commits are listed in known_findings.txt
COMMON_NOTE = "assumed contracts for binary-only libogg and for callees that are proved in their own units or only assumed (listed per unit in evidence); malloc never fails; bounded units (kind B) are labelled and counted separately"
CLAIMS = {
 "C02": {"text": "Contract proofs of the header unpackers against the decoder's setup invariant (ID header, static codebook, floor 1, mapping), of the audio packet entry points (vorbis_synthesis, trackonly, packet_blocksize: mode index in bounds for every bit pattern, no stale PCM pointers on any return) and of the block layer (blockin, pcmout, read, restart, lapout: all indices in bounds for every block-size pair, window history and both rates); CBMC-generated safety obligations (bounds, pointers, overflow, division, shifts, leaks) hold for all inputs of each function under contract. Partial: floor/residue inverse, codebook decode, mapping0_inverse and the look builders are not yet under contract.",
         "note": COMMON_NOTE + "; floor1_unpack is a bounded unit"},
 "C03": {"text": "vorbisfile functions under contract against the handle invariant INV_VF (incl. the position-unset state after a failed seek): accessors, _seek_helper, second stage of open, ov_pcm_seek (table indices, termination of the sample-discard loop), _initial_pcmoffset, ov_read_filter (bounded), _ov_splice (bounded). Partial: page search, header fetch, link bisection and ov_pcm_seek_page are only assumed through callee contracts.",
         "note": COMMON_NOTE + "; termination of loops that wait for the data source is not claimed"},
 "C04": {"text": "Partial: the per-link initial PCM offset is proved non-negative (the fact the total-length computation of vorbisfile relies on for end-trimmed single-page streams). The encoder-side granule position invariant is not yet under contract.",
         "note": COMMON_NOTE},
 "C07": {"text": "Partial, bookkeeping only: the read call advances the reported position by exactly the frames returned (doubled under half-rate) and reports the current link; ov_pcm_seek ends at or past the rounded target. Bit-identity with an uninterrupted decode is a relation between executions and is not decided.",
         "note": COMMON_NOTE},
 "C08": {"text": "Partial: ov_pcm_seek under contract (error propagation, success implies the position reached the rounded target, the discard loop terminates). Reaching every target on an intact stream depends on file contents and is not decided.",
         "note": COMMON_NOTE + "; ov_pcm_seek_page only through its assumed contract"},
 "C09": {"text": "Partial: the per-link initial PCM offset is non-negative and the per-link accessors return exactly the table entries; construction of the link table by bisection is not yet under contract.",
         "note": COMMON_NOTE},
 "C12": {"text": "Callbacks are body-less stubs obeying only their contracts, so every failure point is covered: a failed seek callback leaves offset and framing state alone; a failed second-stage open clears the handle without running the close callback; every accessor is memory-safe with the position unset (-1) as a failed seek leaves it. Partial: propagation through page search / bisection not yet under contract.",
         "note": COMMON_NOTE},
 "C13": {"text": "Partial: rejected ID header / codebook / floor-1 setup leak nothing (memory-leak check on the real code paths); comment_clear releases everything and is idempotent (bounded); the close callback is not run by a failed second-stage open and ov_clear's contract runs it exactly once. Encoder set-up allocations and vorbis_dsp_clear are not yet under contract.",
         "note": COMMON_NOTE},
 "C14": {"text": "vorbis_bitrate_addblock under contract: chosen blob in range, reservoir stays in [0, reservoir_bits], reservoir charged at least the excess over the per-block maximum / credited at most the shortfall below the minimum, for all blob sizes, rates, reservoir sizes and bias; cases hard-max-only and hard-min-only proved (quick tier: contract postconditions; thorough: all obligations). The min+max (CBR) case and average-bitrate tracking are undecided by every back end and not claimed.",
         "note": COMMON_NOTE + "; reservoir_bits >= 8; libogg write-side contracts assumed"},
 "C16": {"text": "Case folding proved for all ints, tagcompare for all lengths (loop contract, ghost index); query/query_count against an independent specification function on bounded comment lists (B, thorough tier).",
         "note": "string-handling units are bounded; libc string models of CBMC"},
 "C17": {"category": "other", "text": "ov_read_filter under contract, case-split over (word, signed, byte order): parameter errors, frame count, position advance, untouched bytes and the value of every output byte (ghost channel/frame) for symbolic floats; bounded in channels/frames (B).",
         "note": "cvtsd2si model assumed (Intel SDM); <=2 channels, <=2 frames per packet; callee contracts for pcmout/read/fetch assumed"},
 "C19": {"category": "other", "text": "Partial, bounded: _ov_splice under contract - squared-window cross-fade over min(n1,n2) samples with the window of that size, fade-in from silence for extra channels, nothing else modified, no access beyond the lap region (float postconditions decided by z3 with the FP theory).",
         "note": COMMON_NOTE + "; <= 2 channels, lap sizes <= 2; equality of positions/audio with the plain seek is relational and not decided"},
 "C20": {"text": "Half-rate: refused (nothing changed) for 64-sample short blocks, flag normalised; ov_halfrate switches every link or, on refusal, leaves every link at full rate (bounded in links); read calls advance the position by frames<<hs; ov_pcm_seek's discard loop terminates under half-rate (a genuine hang was found and fixed). Partial: block-layer index arithmetic under hs not yet under contract.",
         "note": COMMON_NOTE},
}
NOT_APPLICABLE = {
 "C06": "bounds the reconstruction error of a lossy floating-point pipeline built on cos/log/exp/sqrt, which CBMC leaves unconstrained; no contract within reach expresses it (DESIGN.md section 8)",
 "C10": "2-safety relation between whole-library executions that differ in the read callback's short-read schedule and access path, through binary-only libogg; no single-call contract states it (DESIGN.md section 8)",
}
PENDING = "no proof unit built yet (DESIGN.md section 6 gives the planned contracts; section 12 says why it was not reached); not claimed rather than propped up with another technique"
for p in ["C01","C05","C11","C15","C18"]:
    NOT_APPLICABLE[p] = PENDING

CLAIMS["C01"] = {"text": "Partial (bit-exact integer layer only): audio packet header layout (1 type bit, ilog(modes-1) mode bits, two window bits for long blocks only) and mode/block-size selection for every bit pattern; samples made available per block = (bs[lW]/4+bs[W]/4), none for the first block, end/start trimming against the granule position; ID-header and mapping field widths and ranges; template-independent. The float DSP (MDCT, windows, floor curves, VQ values) is not decided: a wrong window coefficient is not detected.",
         "note": COMMON_NOTE + "; channels <= 2 in the block-layer units (rows as separate objects); window VALUES never used"}
CLAIMS["C05"] = {"text": "Partial: ID header round trip through the real packer and the real unpacker for every representable info (lemma harness over an executable bit-packer model): accepted, same channels/rate/bitrates/block sizes, consumed to the last byte; decoder-side bit layouts of the mapping set-up and of the audio packet header. Audio packet payload round trip (floor/residue) is not decided.",
         "note": COMMON_NOTE + "; rt_info is a lemma harness (kind L): real functions composed, bit packer modelled"}
CLAIMS["C11"] = {"text": "Partial (frame conditions): vorbis_synthesis recycles the block arena exactly once and no return path keeps PCM pointers from before the recycling (a genuine use-after-release was found and fixed); blockin writes only the lapped span and the copied half of each accumulator row (ghost index), a sequence gap forgets position and sample count and nothing else; restart forgets position/sequence/pending samples and makes the next block a first block. The bit-identity of later output is an argument over these frames, not machine-checked.",
         "note": COMMON_NOTE + "; channels <= 2"}
CLAIMS["C15"] = {"text": "Partial: control interface under contract for every request number (documented codes, SET after set-up final refused with nothing changed, RATEMANAGE2_SET lets through exactly the combinations the bitrate manager's invariant needs, clamps, GET changes nothing, NULL info refused); template look-up proved against the real static tables for all (channels, rate, request incl. NaN/inf) - thorough tier; a genuine out-of-range base setting was found, replayed and fixed. Memory safety of the psychoacoustic set-up and analysis path is not decided (float-derived indices).",
         "note": COMMON_NOTE + "; arg valid for requests that dereference it without a NULL test"}
CLAIMS["C18"] = {"category": "other", "text": "Partial: (1) supporting static fact over the goto programs of all 22 translation units: every object with static storage duration is const or never assigned / address-taken by any function; (2) frame conditions: the assigns clauses of the block-layer and packet-header units name only objects reachable from the parameters and are proved by the write-set instrumentation. Threads themselves are not modelled; reads of uninitialised memory are not checked.",
         "note": "static scan is a symbol-table/goto-program scan, not a contract proof; the data-race-freedom argument over frames + no mutable statics is written in DESIGN.md, not machine-checked"}
for p in ["C01","C05","C11","C15","C18"]:
    NOT_APPLICABLE.pop(p, None)
