#!/usr/bin/env python3
"""mkmanifest.py - (re)generate /verif/MANIFEST.json from tools/manifest_data.py"""
import json, os, sys
sys.path.insert(0, os.path.dirname(os.path.dirname(os.path.abspath(__file__))))
from tools.manifest_data import CLAIMS, NOT_APPLICABLE, HOOK_COMMITS
from tools.driver import load_units
units = load_units()
checks = []
for pid in sorted(CLAIMS):
    c = CLAIMS[pid]
    us = [u for u in units.values() if pid in u.props]
    if not us:
        raise SystemExit("claimed property %s has no units" % pid)
    checks.append({
        "property_id": pid, "quick_cmd": "./check %s quick" % pid, "thorough_cmd": "./check %s thorough" % pid,
        "evidence_file": "evidence/%s.json" % pid, "replay_cmd_template": "cat {path}", "engine": "cbmc-dfcc",
        "level_claimed": {"category": c.get("category", "proof"), "text": c["text"], "design_ref": "DESIGN.md section 6 (%s)" % pid},
        "level_note": c["note"],
        "technique": "contract-based deductive verification: CBMC 6.11 code contracts (requires/ensures/assigns/loop invariants) enforced per function with goto-instrument --dfcc, callees replaced by their contracts; bounded stand-ins labelled B",
    })
m = {
    "version": 1,
    "setup_cmd": "sh tools/setup.sh",
    "hooks": {"guard": "XIPH_VORBIS_VERIF",
              "enable": "defined only on the goto-cc command line of each proof unit (tools/driver.py). /repo is not edited for verification: function contracts sit on declarations in /verif/contracts/*.spec.h and the definitions are #included byte-for-byte from /repo/lib; loop contracts are spliced into a scratch copy by tools/splice.py (strip(spliced)==original is byte-compared on every run). Only 'fix:' commits touch /repo.",
              "baseline_off_cmd": "cmake --build /repo/_build && ctest --test-dir /repo/_build -j8 --timeout 900",
              "source_commits": HOOK_COMMITS, "add_only": True},
    "engines": [{"name": "cbmc-dfcc", "path": "tools/driver.py", "serves_properties": sorted(CLAIMS),
                 "kind_free_text": "CBMC 6.11 code contracts via goto-instrument --dfcc; one proof unit per function (units/*.py), contracts in contracts/*.spec.h, loop contracts in loops/*.loops"}],
    "checks": checks,
    "not_applicable": [{"property_id": k, "reason": v} for k, v in sorted(NOT_APPLICABLE.items())],
    "notes": "see DESIGN.md; known_findings.txt lists genuine defects (fixed or known)",
}
json.dump(m, open(os.path.join(os.path.dirname(os.path.dirname(os.path.abspath(__file__))), "MANIFEST.json"), "w"), indent=1)
print("claimed:", " ".join(sorted(CLAIMS)), "| n/a:", " ".join(sorted(NOT_APPLICABLE)))
