#!/usr/bin/env python3
"""validate_seeds.py - confirm sub-agent seeded changes in a scratch worktree.

For every /var/tmp/seed_incoming/<ID>/<k>/ (patch.diff, demo.c, NOTES.md):
  1. patch applies to /repo HEAD (scratch worktree under /var/tmp)
  2. library builds with the change and the existing suite passes
  3. demo fails with the change
  4. demo passes without the change
Confirmed seeds are copied to /verif/seeded/<ID>-<k>/ with meta.json.
"""
import os, re, sys, json, subprocess, shutil

INC = "/var/tmp/seed_incoming"
WT = "/var/tmp/wt_val"
OUT = "/verif/seeded"


def sh(cmd, timeout=900, cwd=None):
    p = subprocess.run(cmd, shell=True, stdout=subprocess.PIPE, stderr=subprocess.STDOUT, timeout=timeout, cwd=cwd)
    return p.returncode, p.stdout.decode(errors="replace")


def demo_cmd(demo):
    lines = open(demo, errors="replace").read().splitlines()[:80]
    for i, l in enumerate(lines):
        if re.search(r"\bgcc\b", l) and "fsanitize" not in l:
            cmd = l
            j = i
            while cmd.rstrip().endswith("\\") and j + 1 < len(lines):
                j += 1
                cmd = cmd.rstrip()[:-1] + " " + lines[j]
            cmd = re.sub(r"^[\s*/#]*", "", cmd)
            cmd = re.sub(r"\s\*\s", " ", cmd)
            cmd = cmd[cmd.index("gcc"):]
            cmd = cmd.split("&&")[0]
            return cmd
    return None


def build_demo(seed_dir, exe):
    demo = os.path.join(seed_dir, "demo.c")
    cmd = demo_cmd(demo)
    if not cmd:
        cmd = "gcc -g -I%s/include demo.c %s/_build/lib/libvorbisfile.a %s/_build/lib/libvorbisenc.a %s/_build/lib/libvorbis.a -logg -lm -o demo" % (WT, WT, WT, WT)
    cmd = re.sub(r"/tmp/wt_C\d\d", WT, cmd)
    cmd = re.sub(r"\S*demo\.c", demo, cmd)
    cmd = re.sub(r"-o\s+\S+", "", cmd) + " -o " + exe
    cmd = cmd.replace("*/", "")
    return sh(cmd, cwd=seed_dir) + (cmd,)


def main():
    only = sys.argv[1:]
    if not os.path.isdir(WT):
        rc, o = sh("git -C /repo worktree add --detach %s HEAD" % WT)
        if rc:
            print(o)
            return 1
    else:
        sh("git -C %s checkout -q --detach $(git -C /repo rev-parse HEAD) && git -C %s checkout -- ." % (WT, WT))
    rc, o = sh("cmake -G Ninja -S %s -B %s/_build -DCMAKE_BUILD_TYPE=RelWithDebInfo -DBUILD_TESTING=ON -DCMAKE_C_FLAGS=-Wno-error >/dev/null && cmake --build %s/_build" % (WT, WT, WT))
    if rc:
        print("base build failed", o[-2000:])
        return 1
    os.makedirs(OUT, exist_ok=True)
    results = []
    for pid in sorted(os.listdir(INC)):
        for k in sorted(os.listdir(os.path.join(INC, pid))):
            name = "%s-%s" % (pid, k)
            if only and name not in only and pid not in only:
                continue
            sd = os.path.join(INC, pid, k)
            patch = os.path.join(sd, "patch.diff")
            if not os.path.exists(patch) or not os.path.exists(os.path.join(sd, "demo.c")):
                continue
            res = {"seed": name, "property": pid}
            sh("git -C %s checkout -- ." % WT)
            exe = "/var/tmp/valdemo_%s" % name
            # demo without change
            sh("cmake --build %s/_build" % WT)
            rc, o, cmd = build_demo(sd, exe)
            res["demo_build_cmd"] = cmd
            if rc:
                res["status"] = "demo build failed"
                res["detail"] = o[-1500:]
                results.append(res)
                print(name, res["status"])
                continue
            try:
                rc0, o0 = sh("timeout 600 " + exe, timeout=700, cwd=sd)
            except subprocess.TimeoutExpired:
                rc0, o0 = 124, "timeout"
            res["demo_without_change_rc"] = rc0
            # with change
            rc, o = sh("git -C %s apply %s" % (WT, patch))
            if rc:
                res["status"] = "patch does not apply"
                res["detail"] = o[-1500:]
                results.append(res)
                print(name, res["status"])
                continue
            rc, o = sh("cmake --build %s/_build" % WT)
            if rc:
                res["status"] = "does not compile"
                results.append(res)
                print(name, res["status"])
                sh("git -C %s checkout -- ." % WT)
                continue
            rc, o = sh("ctest --test-dir %s/_build -j8 --timeout 900" % WT)
            res["suite_with_change"] = "pass" if rc == 0 and "100% tests passed" in o else "FAIL"
            rc, o, cmd = build_demo(sd, exe)
            try:
                rc1, o1 = sh("timeout 600 " + exe, timeout=700, cwd=sd)
            except subprocess.TimeoutExpired:
                rc1, o1 = 124, "timeout"
            res["demo_with_change_rc"] = rc1
            res["demo_with_change_tail"] = o1[-400:]
            sh("git -C %s checkout -- ." % WT)
            ok = res["suite_with_change"] == "pass" and rc0 == 0 and rc1 != 0
            res["status"] = "confirmed" if ok else "not confirmed"
            results.append(res)
            print(name, res["status"], "suite=%s demo_without=%s demo_with=%s" % (res["suite_with_change"], rc0, rc1))
            if ok:
                dst = os.path.join(OUT, name)
                shutil.rmtree(dst, ignore_errors=True)
                shutil.copytree(sd, dst)
                notes = open(os.path.join(sd, "NOTES.md"), errors="replace").read() if os.path.exists(os.path.join(sd, "NOTES.md")) else ""
                meta = {"property": pid, "seed": name, "source": "independent sub-agent given only the property text and a scratch worktree",
                        "needs_to_manifest": notes[:1500],
                        "confirmed_by": "tools/validate_seeds.py in scratch worktree %s at repo HEAD %s" % (WT, sh("git -C /repo rev-parse --short HEAD")[1].strip()),
                        "ran": {"suite_with_change": res["suite_with_change"], "demo_build_cmd": res["demo_build_cmd"],
                                "demo_without_change_rc": rc0, "demo_with_change_rc": rc1},
                        "detected_by": "see DESIGN.md section 11 (filled by tools/seed_matrix.py)"}
                json.dump(meta, open(os.path.join(dst, "meta.json"), "w"), indent=1)
            try:
                os.remove(exe)
            except OSError:
                pass
    json.dump(results, open("/var/tmp/seed_validation.json", "w"), indent=1)
    sh("git -C /repo worktree remove --force %s" % WT)
    return 0


if __name__ == "__main__":
    sys.exit(main())
