/* oggmodel_check.c - supporting fact: the executable bit-packer model
   (contracts/assumed/oggpack_model.h) agrees bit for bit with the real libogg
   on random write/read sequences, including reads past the end.
   Build: gcc -O1 -I/verif/contracts tools/oggmodel_check.c -logg (model symbols
   are renamed with a prefix so both implementations link together). */
#include <stdio.h>
#include <stdlib.h>
#include <string.h>
#include <ogg/ogg.h>
#define oggpack_writeinit m_writeinit
#define oggpack_reset m_reset
#define oggpack_writeclear m_writeclear
#define oggpack_write m_write
#define oggpack_readinit m_readinit
#define oggpack_read m_read
#define oggpack_look m_look
#define oggpack_adv m_adv
#define oggpack_bytes m_bytes
#define oggpack_bits m_bits
#define oggpack_get_buffer m_get_buffer
#define OGGM_CAP 4096
#define VERIF_OGGPACK_MODEL_NO_OGG
#include "assumed/oggpack_model.h"
#undef oggpack_writeinit
#undef oggpack_reset
#undef oggpack_writeclear
#undef oggpack_write
#undef oggpack_readinit
#undef oggpack_read
#undef oggpack_look
#undef oggpack_adv
#undef oggpack_bytes
#undef oggpack_bits
#undef oggpack_get_buffer

static unsigned long rnd(void){ static unsigned long long s=88172645463325252ULL; s^=s<<13; s^=s>>7; s^=s<<17; return (unsigned long)s; }

int main(void){
  long checks=0;
  for(int it=0;it<20000;it++){
    oggpack_buffer a,b; int n=rnd()%40; int w[64]; unsigned long v[64];
    oggpack_writeinit(&a); m_writeinit(&b);
    for(int i=0;i<n;i++){ w[i]=rnd()%33; v[i]=rnd(); oggpack_write(&a,v[i],w[i]); m_write(&b,v[i],w[i]); }
    if(oggpack_bytes(&a)!=m_bytes(&b)||oggpack_bits(&a)!=m_bits(&b)){printf("size mismatch\n");return 1;}
    long by=oggpack_bytes(&a);
    if(memcmp(oggpack_get_buffer(&a),m_get_buffer(&b),by)){printf("byte mismatch\n");return 1;}
    /* read back with random widths, possibly truncated, running past the end */
    long tr=by? (long)(rnd()%(by+1)) : 0; if(rnd()&1) tr=by;
    oggpack_buffer ra,rb; oggpack_readinit(&ra,oggpack_get_buffer(&a),tr); m_readinit(&rb,m_get_buffer(&b),tr);
    for(int i=0;i<n+6;i++){
      int bits=(rnd()%5==0)?(int)(rnd()%36)-1:w[i%(n?n:1)];
      if(rnd()%4==0){ long x=oggpack_look(&ra,bits), y=m_look(&rb,bits); if(x!=y){printf("look mismatch %ld %ld bits %d\n",x,y,bits);return 1;} if(bits>=0&&bits<=32){oggpack_adv(&ra,bits); m_adv(&rb,bits);} }
      else { long x=oggpack_read(&ra,bits), y=m_read(&rb,bits); if(x!=y){printf("read mismatch %ld %ld bits %d\n",x,y,bits);return 1;} }
      if(ra.endbyte!=rb.endbyte||ra.endbit!=rb.endbit||(ra.ptr==NULL)!=(rb.ptr==NULL)||oggpack_bytes(&ra)!=m_bytes(&rb)){printf("cursor mismatch\n");return 1;}
      checks++;
    }
    oggpack_writeclear(&a); m_writeclear(&b);
  }
  printf("oggpack model agrees with libogg on %ld checked operations\n",checks);
  return 0;
}
